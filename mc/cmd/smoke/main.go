package main

import (
	"fmt"
	"time"

	"verif.local/mc/coop"
	"verif.local/mc/world"
)

const pools = `[{"nodeSubnets":["10.49.27.0/24"],"ips":["10.49.27.205","10.49.27.216~10.49.27.217"],"subnet":"10.49.27.0/24","gateway":"10.49.27.1"}]`

func main() {
	cfg := world.Config{Pools: pools, Nodes: []world.NodeSpec{{"n1", "10.49.27.3"}, {"n2", "10.49.27.4"}}}
	run := func(x *coop.Exec) coop.Outcome {
		w := world.New(cfg)
		if err := w.Start(); err != nil {
			return coop.Outcome{Err: err}
		}
		w.SetStatefulSet("ns", "a", 2)
		pa := world.PodSpec{Name: "a-0", NS: "ns", OwnerKind: "StatefulSet", OwnerName: "a"}
		pb := world.PodSpec{Name: "a-1", NS: "ns", OwnerKind: "StatefulSet", OwnerName: "a"}
		w.CreatePod(pa)
		w.CreatePod(pb)
		s := coop.NewSched(x)
		s.Go("schedA", func() { w.Schedule(pa.Key()) })
		s.Go("schedB", func() { w.Schedule(pb.Key()) })
		s.Run()
		out := coop.Outcome{Trace: s.TraceStrings(), StateHash: fmt.Sprint(w.MemDump(), w.Bindings)}
		if s.Err != nil {
			out.Err = s.Err
		}
		if s.Deadlock {
			out.Err = fmt.Errorf("deadlock")
		}
		return out
	}
	for _, p := range []int{0, 1, 2} {
		t0 := time.Now()
		e := &coop.Explorer{Bounds: map[string]int{"preempt": p}, Name: "smoke"}
		r := e.Explore(run)
		fmt.Printf("P=%d execs=%d distinct=%d maxpoints=%d viol=%d diverged=%d %v\n", p, r.Executions, len(r.Distinct), r.MaxPoints, len(r.Violations), r.Diverged, time.Since(t0))
		if p == 0 {
			for _, tr := range r.SampleTraces {
				for _, l := range tr {
					fmt.Println("   ", l)
				}
			}
			for k := range r.Distinct {
				fmt.Println(k)
			}
		}
		for _, v := range r.Violations {
			fmt.Println(v.Error)
		}
	}
}
