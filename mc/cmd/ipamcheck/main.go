package main

import "verif.local/mc/props"

func main() { props.Main() }
