package main

import (
	"flag"
	"fmt"
	"os"
	"strings"

	"verif.local/mc/instr"
)

func main() {
	repo := flag.String("repo", "/repo", "repository root")
	out := flag.String("out", "", "output directory")
	pkgs := flag.String("pkgs", strings.Join(instr.DefaultPkgs, ","), "packages")
	typed := flag.Bool("typed", true, "type-check the packages and monitor all fields of galaxy struct types")
	flag.Parse()
	if *out == "" {
		fmt.Fprintln(os.Stderr, "need -out")
		os.Exit(2)
	}
	ov, rep, err := instr.Generate(instr.Config{Repo: *repo, OutDir: *out, Pkgs: strings.Split(*pkgs, ","), Typed: *typed})
	if err != nil {
		fmt.Fprintln(os.Stderr, err)
		os.Exit(2)
	}
	fmt.Fprintf(os.Stderr, "instr: %d files, rewrites %v, failed %v\n", rep.Files, rep.Rewrites, rep.Failed)
	fmt.Println(ov)
}
