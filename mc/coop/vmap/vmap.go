// Package vmap makes map iteration order an explicit environment choice: sorted keys rotated by r.
package vmap

import (
	"sort"

	"verif.local/mc/coop"
)

// Rotation emulates Go's unspecified map iteration order outside the scheduler: every sorted key list is rotated by
// Rotation mod len. Harnesses vary it between requests to show that results do not depend on iteration order.
var Rotation int

func rotate[K ~string](keys []K) []K {
	if Rotation > 0 && len(keys) > 1 {
		r := Rotation % len(keys)
		keys = append(keys[r:], keys[:r]...)
	}
	return keys
}

// Keys returns the keys of m sorted, rotated by an environment choice (kind "rot").
func Keys[K ~string, V any](m map[K]V) []K {
	coop.AccessMap(m, "map (range)", false)
	keys := make([]K, 0, len(m))
	for k := range m {
		keys = append(keys, k)
	}
	sort.Slice(keys, func(i, j int) bool { return keys[i] < keys[j] })
	if len(keys) > 1 {
		if r := coop.Choose("rot", len(keys)); r > 0 {
			keys = append(keys[r:], keys[:r]...)
		}
	}
	return rotate(keys)
}

// SortedKeys returns the keys of m sorted (no choice).
func SortedKeys[K ~string, V any](m map[K]V) []K {
	coop.AccessMap(m, "map (range)", false)
	keys := make([]K, 0, len(m))
	for k := range m {
		keys = append(keys, k)
	}
	sort.Slice(keys, func(i, j int) bool { return keys[i] < keys[j] })
	return rotate(keys)
}
