// Package vmap makes map iteration order an explicit environment choice: sorted keys rotated by r.
package vmap

import (
	"sort"

	"verif.local/mc/coop"
)

// Keys returns the keys of m sorted, rotated by an environment choice (kind "rot").
func Keys[V any](m map[string]V) []string {
	keys := make([]string, 0, len(m))
	for k := range m {
		keys = append(keys, k)
	}
	sort.Strings(keys)
	if len(keys) > 1 {
		if r := coop.Choose("rot", len(keys)); r > 0 {
			keys = append(keys[r:], keys[:r]...)
		}
	}
	return keys
}

// SortedKeys returns the keys of m sorted (no choice).
func SortedKeys[V any](m map[string]V) []string {
	keys := make([]string, 0, len(m))
	for k := range m {
		keys = append(keys, k)
	}
	sort.Strings(keys)
	return keys
}
