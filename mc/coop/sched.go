// Package coop is a cooperative scheduler + stateless explorer (CHESS style) for real Go code.
//
// Exactly one managed thread runs at any time. Managed threads yield at Point()/Acquire(); the
// scheduler goroutine then evaluates the oracle and asks the execution's chooser which enabled
// thread runs next. All other nondeterminism enters through Choose().
package coop

import (
	"fmt"
	"runtime/debug"
	"strings"
)

// Mode says how the shims (vsync, vkeymutex, vwait, ...) behave.
type Mode int32

const (
	// Free: no scheduler attached; shims are the real primitives.
	Free Mode = iota
	// Managed: a managed thread is running under a scheduler.
	Managed
	// Oracle: the scheduler goroutine is evaluating an oracle while all threads are parked; lock
	// operations are no-ops.
	Oracle
	// Aborting: threads are being unwound; shims are no-ops and never yield.
	Aborting
)

var (
	mode Mode
	cur  *Sched
)

// CurMode returns the current shim mode.
func CurMode() Mode { return mode }

// IsManaged is true when called from a managed thread under a scheduler.
func IsManaged() bool { return mode == Managed && cur != nil }

// Cur returns the scheduler of the running execution, or nil.
func Cur() *Sched { return cur }

type abortSentinel struct{}

// CrashSentinel is the panic value used to model a process crash of the running thread.
type CrashSentinel struct{ Where string }

// LockState is the model state of one (RW) mutex under the scheduler.
type LockState struct {
	Writer  *Thread
	Readers map[*Thread]int
	Name    string
	WVC     []int // clock of the last write-unlock
	RVC     []int // join of the clocks of read-unlocks
}

func (l *LockState) free(write bool, t *Thread) bool {
	if l.Writer != nil {
		return false
	}
	if write {
		for r, n := range l.Readers {
			if n > 0 && r != nil {
				return false
			}
		}
	}
	return true
}

// Thread is a managed logical thread.
type Thread struct {
	ID    int
	Name  string
	wake  chan struct{}
	done  bool
	Kind  string // kind of the point the thread is parked at
	Label string
	want  *LockState
	wantW bool
	// WaitCond, when non-nil, must return true for the thread to be enabled (used by WaitGroup shim).
	waitCond func() bool
	Panic    interface{}
	PanicStk string
	Steps    int
	// vector clock for the happens-before monitor
	VC []int
}

// PointRec is one entry of the schedule trace.
type PointRec struct {
	Thread string
	Kind   string
	Label  string
}

func (p PointRec) String() string { return p.Thread + ":" + p.Kind + ":" + p.Label }

// Sched is the scheduler of one execution.
type Sched struct {
	X        *Exec
	Threads  []*Thread
	running  *Thread
	yieldCh  chan struct{}
	Trace    []PointRec
	OnPoint  func(s *Sched) error // oracle; evaluated before every scheduling decision
	OnStep   func(s *Sched, t *Thread)
	MaxSteps int
	Steps    int
	Deadlock bool
	Err      error
	Crashed  bool
	aborted  bool
	// LastRan is the thread that ran the most recent step (culprit attribution).
	LastRan *Thread
	Races   []string
}

// NewSched creates a scheduler bound to execution x.
func NewSched(x *Exec) *Sched {
	return &Sched{X: x, yieldCh: make(chan struct{}), MaxSteps: 5000}
}

// Go registers a managed thread. It may be called before Run (initial threads) or from a running
// managed thread (spawn).
func (s *Sched) Go(name string, body func()) *Thread {
	t := &Thread{ID: len(s.Threads), Name: name, wake: make(chan struct{}), Kind: "start", Label: name}
	if s.running != nil {
		p := s.running
		t.VC = append([]int(nil), p.VC...)
		for len(p.VC) <= p.ID {
			p.VC = append(p.VC, 0)
		}
		p.VC[p.ID]++
	}
	for len(t.VC) <= t.ID {
		t.VC = append(t.VC, 0)
	}
	t.VC[t.ID] = 1
	s.Threads = append(s.Threads, t)
	go func() {
		<-t.wake
		defer func() {
			if r := recover(); r != nil {
				switch r.(type) {
				case abortSentinel:
				case CrashSentinel:
					s.Crashed = true
				default:
					t.Panic = r
					t.PanicStk = string(debug.Stack())
				}
			}
			t.done = true
			t.Kind, t.Label = "end", ""
			s.yieldCh <- struct{}{}
		}()
		if s.aborted {
			panic(abortSentinel{})
		}
		body()
	}()
	return t
}

func (s *Sched) enabled(t *Thread) bool {
	if t.done {
		return false
	}
	if t.want != nil && !t.want.free(t.wantW, t) {
		return false
	}
	if t.want != nil && !t.wantW {
		// sync.RWMutex: a blocked Lock call excludes new readers (also a reader that already holds the lock: recursive read
		// locking deadlocks as soon as a writer gets in between)
		for _, u := range s.Threads {
			if u != t && !u.done && u.want == t.want && u.wantW {
				return false
			}
		}
	}
	if t.waitCond != nil && !t.waitCond() {
		return false
	}
	return true
}

// Run drives the execution to completion (all threads done), deadlock, oracle error or crash.
func (s *Sched) Run() {
	prevMode, prevCur := mode, cur
	cur = s
	defer func() { mode, cur = prevMode, prevCur }()
	for {
		var en []*Thread
		alive := 0
		for _, t := range s.Threads {
			if !t.done {
				alive++
			}
			if s.enabled(t) {
				en = append(en, t)
			}
		}
		if s.OnPoint != nil && s.Err == nil {
			mode = Oracle
			if err := s.OnPoint(s); err != nil {
				s.Err = err
			}
			mode = Free
		}
		if s.Err != nil || s.Crashed {
			s.abortAll()
			return
		}
		if alive == 0 {
			return
		}
		if len(en) == 0 {
			s.Deadlock = true
			s.abortAll()
			return
		}
		if s.Steps >= s.MaxSteps {
			s.Err = fmt.Errorf("step horizon %d exceeded (livelock?)", s.MaxSteps)
			s.abortAll()
			return
		}
		// canonical order: last running thread first if still enabled, then ascending ids
		runningEnabled := false
		if s.running != nil {
			for i, t := range en {
				if t == s.running {
					runningEnabled = true
					copy(en[1:i+1], en[0:i])
					en[0] = t
					break
				}
			}
		}
		c := 0
		if len(en) > 1 {
			labels := make([]string, len(en))
			for i, t := range en {
				labels[i] = t.Name + ":" + t.Kind + ":" + t.Label
			}
			c = s.X.choose("sched", len(en), runningEnabled, labels)
		}
		t := en[c]
		if t.want != nil {
			l := t.want
			if t.wantW {
				l.Writer = t
			} else {
				if l.Readers == nil {
					l.Readers = map[*Thread]int{}
				}
				l.Readers[t]++
			}
			t.want = nil
		}
		t.waitCond = nil
		s.Trace = append(s.Trace, PointRec{t.Name, t.Kind, t.Label})
		s.running = t
		s.LastRan = t
		s.Steps++
		t.Steps++
		mode = Managed
		t.wake <- struct{}{}
		<-s.yieldCh
		mode = Free
		if t.Panic != nil && s.Err == nil {
			s.Err = fmt.Errorf("panic in thread %s: %v\n%s", t.Name, t.Panic, trimStack(t.PanicStk))
		}
		if s.OnStep != nil {
			s.OnStep(s, t)
		}
	}
}

func trimStack(s string) string {
	lines := strings.Split(s, "\n")
	if len(lines) > 40 {
		lines = lines[:40]
	}
	return strings.Join(lines, "\n")
}

func (s *Sched) abortAll() {
	s.aborted = true
	mode = Aborting
	for _, t := range s.Threads {
		for !t.done {
			t.wake <- struct{}{}
			<-s.yieldCh
		}
	}
	mode = Free
}

func (s *Sched) park(t *Thread) {
	s.yieldCh <- struct{}{}
	<-t.wake
	if s.aborted {
		panic(abortSentinel{})
	}
}

// Point yields to the scheduler. No-op outside managed mode.
func Point(kind, label string) {
	if mode != Managed || cur == nil {
		return
	}
	s := cur
	t := s.running
	t.Kind, t.Label = kind, label
	s.park(t)
}

// Acquire blocks (cooperatively) until the lock is available and takes it.
func Acquire(l *LockState, write bool, label string) {
	if mode != Managed || cur == nil {
		return
	}
	s := cur
	t := s.running
	// (a re-entrant read lock is an ordinary acquisition: it is granted unless a writer waits, see enabled)
	t.Kind = "lock"
	if write {
		t.Label = "W " + label
	} else {
		t.Label = "R " + label
	}
	t.want, t.wantW = l, write
	s.park(t)
	hbAcquire(t, l, write)
}

// Release releases the lock. It is not a scheduling point.
func Release(l *LockState, write bool) {
	if mode != Managed || cur == nil {
		return
	}
	t := cur.running
	hbRelease(t, l, write)
	if write {
		l.Writer = nil
	} else if l.Readers[t] > 0 {
		l.Readers[t]--
		if l.Readers[t] == 0 {
			delete(l.Readers, t)
		}
	}
}

// WaitUntil parks the running thread until cond() holds (evaluated by the scheduler).
func WaitUntil(kind, label string, cond func() bool) {
	if mode != Managed || cur == nil {
		return
	}
	s := cur
	t := s.running
	t.Kind, t.Label = kind, label
	t.waitCond = cond
	s.park(t)
}

// Spawn starts body as a managed thread when running under a scheduler, or as a plain goroutine.
func Spawn(name string, body func()) {
	if mode == Managed && cur != nil {
		cur.Go(name, body)
		return
	}
	if mode == Aborting {
		return
	}
	go body()
}

// Choose is an environment choice with default 0.
func Choose(kind string, n int) int {
	if mode != Managed || cur == nil || n <= 1 {
		return 0
	}
	if cur.X.Bounds[kind] <= 0 {
		return 0
	}
	return cur.X.choose(kind, n, true, nil)
}

// Crash unwinds the running thread with CrashSentinel (the scheduler then abandons all threads).
func Crash(where string) {
	if mode != Managed || cur == nil {
		return
	}
	panic(CrashSentinel{where})
}

// Running returns the running managed thread (nil outside managed mode).
func Running() *Thread {
	if cur == nil {
		return nil
	}
	return cur.running
}

// TraceStrings renders the schedule trace.
func (s *Sched) TraceStrings() []string {
	out := make([]string, len(s.Trace))
	for i, p := range s.Trace {
		out[i] = p.String()
	}
	return out
}
