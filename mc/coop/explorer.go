package coop

import (
	"fmt"
	"os"
	"time"
)

// ChoicePoint is one recorded choice of an execution.
type ChoicePoint struct {
	Kind           string
	N              int
	Chosen         int
	RunningEnabled bool // sched only: switching away costs a preemption
	Labels         []string
}

// Exec is one execution: a choice prefix to replay, then defaults.
type Exec struct {
	Prefix   []int
	Points   []ChoicePoint
	Bounds   map[string]int
	Diverged bool
	// DivergeInfo describes the first divergence (debugging aid).
	DivergeInfo string
}

func (x *Exec) choose(kind string, n int, runningEnabled bool, labels []string) int {
	i := len(x.Points)
	c := 0
	if i < len(x.Prefix) {
		c = x.Prefix[i]
		if c >= n {
			// divergence while replaying a prefix: never an alarm, the branch is abandoned
			if !x.Diverged {
				x.DivergeInfo = fmt.Sprintf("point %d kind %s: prefix wants choice %d of %d enabled %v; prefix %v", i, kind, c, n, labels, x.Prefix)
			}
			x.Diverged = true
			c = 0
		}
	}
	x.Points = append(x.Points, ChoicePoint{Kind: kind, N: n, Chosen: c, RunningEnabled: runningEnabled, Labels: labels})
	return c
}

// Choices returns the full choice list of the execution.
func (x *Exec) Choices() []int {
	out := make([]int, len(x.Points))
	for i, p := range x.Points {
		out[i] = p.Chosen
	}
	return out
}

func costKind(p ChoicePoint) (string, bool) {
	if p.Kind == "sched" {
		if p.RunningEnabled {
			return "preempt", true
		}
		return "", false
	}
	return p.Kind, true
}

// Outcome is what a scenario run reports for one execution.
type Outcome struct {
	Err        error  // oracle violation / panic / deadlock
	Signature  string // known-finding signature of the violation ("" if none)
	StateHash  string // hash of the final state (distinct outcomes)
	Nontrivial bool   // by the property's rule
	Trace      []string
}

// RunFunc runs the scenario once under execution x.
type RunFunc func(x *Exec) Outcome

// Violation is a replayable counterexample.
type Violation struct {
	Scenario  string         `json:"scenario"`
	Choices   []int          `json:"choices"`
	Trace     []string       `json:"trace"`
	Error     string         `json:"error"`
	Signature string         `json:"signature"`
	Bounds    map[string]int `json:"bounds"`
	// Ops is the operation history for explicit-state (history BFS) counterexamples.
	Ops []string `json:"ops,omitempty"`
	// Class is the scenario class (workload/policy, input class).
	Class string `json:"class,omitempty"`
}

// Result summarises an exploration.
type Result struct {
	Scenario       string
	Executions     int
	Distinct       map[string]int // state hash -> count
	NontrivialSet  map[string]bool
	Diverged       int
	Deadlocks      int
	Violations     []Violation
	Exhaustive     bool
	Bounds         map[string]int
	MaxPoints      int
	SampleTraces   [][]string
	StoppedByLimit string
}

// Explorer does depth-first search over choice prefixes with per-kind deviation budgets.
type Explorer struct {
	Bounds        map[string]int
	Deadline      time.Time
	MaxExecs      int
	MaxViolations int
	Name          string
}

// Explore enumerates every execution of run within the bounds.
func (e *Explorer) Explore(run RunFunc) *Result {
	res := &Result{Scenario: e.Name, Distinct: map[string]int{}, NontrivialSet: map[string]bool{}, Exhaustive: true, Bounds: e.Bounds}
	if e.MaxViolations == 0 {
		e.MaxViolations = 3
	}
	seenSig := map[string]bool{}
	var rec func(prefix []int)
	stop := false
	rec = func(prefix []int) {
		if stop {
			return
		}
		if !e.Deadline.IsZero() && time.Now().After(e.Deadline) {
			res.Exhaustive = false
			res.StoppedByLimit = "deadline"
			stop = true
			return
		}
		if e.MaxExecs > 0 && res.Executions >= e.MaxExecs {
			res.Exhaustive = false
			res.StoppedByLimit = "max_execs"
			stop = true
			return
		}
		x := &Exec{Prefix: prefix, Bounds: e.Bounds}
		out := run(x)
		res.Executions++
		if x.Diverged {
			res.Diverged++
			res.Exhaustive = false
			if os.Getenv("VERIF_DEBUG_DIVERGE") != "" {
				fmt.Fprintf(os.Stderr, "DIVERGED %s: %s\n  trace %v\n", e.Name, x.DivergeInfo, out.Trace)
			}
			return
		}
		if len(x.Points) > res.MaxPoints {
			res.MaxPoints = len(x.Points)
		}
		res.Distinct[out.StateHash]++
		if out.Nontrivial {
			res.NontrivialSet[out.StateHash] = true
		}
		if len(res.SampleTraces) < 3 && (res.Executions == 1 || res.Executions%97 == 0) {
			res.SampleTraces = append(res.SampleTraces, out.Trace)
		}
		if out.Err != nil {
			// confirm by replaying the exact choice list twice
			ok := true
			for k := 0; k < 2; k++ {
				y := &Exec{Prefix: x.Choices(), Bounds: e.Bounds}
				o2 := run(y)
				// (errors are compared by their first line: panic reports carry goroutine numbers and addresses)
				if y.Diverged || o2.Err == nil || firstLine(o2.Err.Error()) != firstLine(out.Err.Error()) || fmt.Sprint(o2.Trace) != fmt.Sprint(out.Trace) {
					ok = false
				}
			}
			if !ok {
				res.Diverged++
				res.Exhaustive = false
				if os.Getenv("VERIF_DEBUG_DIVERGE") != "" {
					fmt.Fprintf(os.Stderr, "UNCONFIRMED %s: %v\n  trace %v\n", e.Name, out.Err, out.Trace)
				}
			} else if !seenSig[out.Signature] || out.Signature == "" {
				seenSig[out.Signature] = true
				res.Violations = append(res.Violations, Violation{Scenario: e.Name, Choices: x.Choices(), Trace: out.Trace,
					Error: out.Err.Error(), Signature: out.Signature, Bounds: e.Bounds})
				if len(res.Violations) >= e.MaxViolations {
					stop = true
					res.Exhaustive = false
					res.StoppedByLimit = "max_violations"
				}
			}
		}
		used := map[string]int{}
		for i := 0; i < len(x.Points); i++ {
			p := x.Points[i]
			if i >= len(prefix) {
				k, costs := costKind(p)
				for alt := 1; alt < p.N; alt++ {
					if costs && used[k]+1 > e.Bounds[k] {
						break
					}
					np := make([]int, i+1)
					copy(np, x.Choices()[:i])
					np[i] = alt
					rec(np)
					if stop {
						return
					}
				}
			}
			if p.Chosen != 0 {
				if k, costs := costKind(p); costs {
					used[k]++
				}
			}
		}
	}
	rec(nil)
	return res
}

func firstLine(s string) string {
	for i := 0; i < len(s); i++ {
		if s[i] == '\n' {
			return s[:i]
		}
	}
	return s
}
