// Package vwait replaces k8s.io/apimachinery/pkg/util/wait in instrumented galaxy packages: same
// number of attempts, virtual time, a scheduling point between attempts.
package vwait

import (
	"time"

	"k8s.io/apimachinery/pkg/util/wait"
	"verif.local/mc/coop"
)

type ConditionFunc = wait.ConditionFunc

var ErrWaitTimeout = wait.ErrWaitTimeout

func poll(immediate bool, interval, timeout time.Duration, cond ConditionFunc) error {
	attempts := 1 << 30
	if timeout > 0 && interval > 0 {
		attempts = int(timeout / interval)
	}
	if immediate {
		done, err := cond()
		if err != nil {
			return err
		}
		if done {
			return nil
		}
	}
	if timeout == 0 && !immediate {
		// PollInfinite
	}
	for i := 0; i < attempts; i++ {
		coop.Point("wait", "poll")
		if coop.CurMode() == coop.Free {
			time.Sleep(time.Millisecond)
		}
		done, err := cond()
		if err != nil {
			return err
		}
		if done {
			return nil
		}
	}
	return ErrWaitTimeout
}

func Poll(interval, timeout time.Duration, cond ConditionFunc) error {
	return poll(false, interval, timeout, cond)
}

func PollImmediate(interval, timeout time.Duration, cond ConditionFunc) error {
	return poll(true, interval, timeout, cond)
}

func PollInfinite(interval time.Duration, cond ConditionFunc) error {
	// bounded to 3 attempts under the harness: a configmap that never becomes valid would spin forever
	for i := 0; i < 3; i++ {
		done, err := cond()
		if err != nil {
			return err
		}
		if done {
			return nil
		}
		coop.Point("wait", "pollinfinite")
	}
	return ErrWaitTimeout
}

func Until(f func(), period time.Duration, stopCh <-chan struct{}) {
	wait.Until(f, period, stopCh)
}

// InlineUntil: when set (sequential harnesses driving a start-up path), GoUntil runs f once in the caller instead of
// starting the periodic goroutine; the harness plays the later periods itself.
var InlineUntil bool

// GoUntil stands for the statement `go wait.Until(f, period, stopCh)`.
func GoUntil(f func(), period time.Duration, stopCh <-chan struct{}) {
	if InlineUntil {
		f()
		return
	}
	go wait.Until(f, period, stopCh)
}
