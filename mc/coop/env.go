package coop

import (
	"os"
	"sync"
	"unsafe"
)

// The process environment is state shared by everything that runs in the daemon. Calls of the os environment functions in
// the code under test are redirected here by the overlay: each one is a scheduling point and a monitored access of a
// location that stands for the variable (all variables for Environ/Clearenv).

var (
	envMu   sync.Mutex
	envLocs = map[string]*byte{}
)

func envLoc(k string) uintptr {
	envMu.Lock()
	defer envMu.Unlock()
	p := envLocs[k]
	if p == nil {
		p = new(byte)
		envLocs[k] = p
	}
	return uintptr(unsafe.Pointer(p))
}

func envAll(write bool) {
	envMu.Lock()
	keys := make([]string, 0, len(envLocs))
	for k := range envLocs {
		keys = append(keys, k)
	}
	envMu.Unlock()
	for _, k := range keys {
		Access(envLoc(k), "env:"+k, write)
	}
}

func Setenv(k, v string) error {
	Point("env", "setenv "+k)
	Access(envLoc(k), "env:"+k, true)
	return os.Setenv(k, v)
}

func Unsetenv(k string) error {
	Point("env", "unsetenv "+k)
	Access(envLoc(k), "env:"+k, true)
	return os.Unsetenv(k)
}

func Getenv(k string) string {
	Point("env", "getenv "+k)
	Access(envLoc(k), "env:"+k, false)
	return os.Getenv(k)
}

func LookupEnv(k string) (string, bool) {
	Point("env", "getenv "+k)
	Access(envLoc(k), "env:"+k, false)
	return os.LookupEnv(k)
}

func Environ() []string {
	Point("env", "environ")
	envAll(false)
	return os.Environ()
}

func Clearenv() {
	Point("env", "clearenv")
	envAll(true)
	os.Clearenv()
}
