// Package vsync replaces "sync" in instrumented galaxy packages.
package vsync

import (
	"sync"

	"verif.local/mc/coop"
)

type (
	Once   = sync.Once
	Locker = sync.Locker
	Map    = sync.Map
	Pool   = sync.Pool
	Cond   = sync.Cond
)

// Mutex is sync.Mutex under the cooperative scheduler.
type Mutex struct {
	real sync.Mutex
	st   coop.LockState
}

func (m *Mutex) Lock() {
	switch coop.CurMode() {
	case coop.Managed:
		coop.Acquire(&m.st, true, "mutex")
	case coop.Free:
		m.real.Lock()
	}
}

func (m *Mutex) Unlock() {
	switch coop.CurMode() {
	case coop.Managed:
		coop.Release(&m.st, true)
	case coop.Free:
		m.real.Unlock()
	}
}

// RWMutex is sync.RWMutex under the cooperative scheduler.
type RWMutex struct {
	real sync.RWMutex
	st   coop.LockState
}

func (m *RWMutex) Lock() {
	switch coop.CurMode() {
	case coop.Managed:
		coop.Acquire(&m.st, true, "rwmutex")
	case coop.Free:
		m.real.Lock()
	}
}

func (m *RWMutex) Unlock() {
	switch coop.CurMode() {
	case coop.Managed:
		coop.Release(&m.st, true)
	case coop.Free:
		m.real.Unlock()
	}
}

func (m *RWMutex) RLock() {
	switch coop.CurMode() {
	case coop.Managed:
		coop.Acquire(&m.st, false, "rwmutex")
	case coop.Free:
		m.real.RLock()
	}
}

func (m *RWMutex) RUnlock() {
	switch coop.CurMode() {
	case coop.Managed:
		coop.Release(&m.st, false)
	case coop.Free:
		m.real.RUnlock()
	}
}

// Held reports whether the lock is held in the model (used by oracles: "no lock left held").
func (m *RWMutex) Held() bool { return m.st.Writer != nil || len(m.st.Readers) > 0 }
func (m *Mutex) Held() bool   { return m.st.Writer != nil }

// WaitGroup under the scheduler: Wait parks until the counter is zero.
type WaitGroup struct {
	real sync.WaitGroup
	n    int
}

func (w *WaitGroup) Add(d int) {
	if coop.CurMode() == coop.Free {
		w.real.Add(d)
		return
	}
	w.n += d
}

func (w *WaitGroup) Done() { w.Add(-1) }

func (w *WaitGroup) Wait() {
	switch coop.CurMode() {
	case coop.Free:
		w.real.Wait()
	case coop.Managed:
		coop.WaitUntil("wg", "wait", func() bool { return w.n <= 0 })
	}
}
