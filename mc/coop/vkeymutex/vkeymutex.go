// Package vkeymutex replaces k8s.io/utils/keymutex in instrumented galaxy packages: exact per-key
// locks (the real hashed table can only add blocking through hash collisions, never behaviours).
package vkeymutex

import (
	"sync"

	"verif.local/mc/coop"
)

type KeyMutex interface {
	LockKey(id string)
	UnlockKey(id string) error
}

type km struct {
	mu    sync.Mutex
	real  map[string]*sync.Mutex
	model map[string]*coop.LockState
}

// NewHashed has the signature of keymutex.NewHashed; n is ignored.
func NewHashed(n int) KeyMutex {
	return &km{real: map[string]*sync.Mutex{}, model: map[string]*coop.LockState{}}
}

func (k *km) LockKey(id string) {
	switch coop.CurMode() {
	case coop.Managed:
		l := k.model[id]
		if l == nil {
			l = &coop.LockState{Name: id}
			k.model[id] = l
		}
		coop.Acquire(l, true, "key "+id)
	case coop.Free:
		k.mu.Lock()
		m := k.real[id]
		if m == nil {
			m = &sync.Mutex{}
			k.real[id] = m
		}
		k.mu.Unlock()
		m.Lock()
	}
}

func (k *km) UnlockKey(id string) error {
	switch coop.CurMode() {
	case coop.Managed:
		if l := k.model[id]; l != nil {
			coop.Release(l, true)
		}
	case coop.Free:
		k.mu.Lock()
		m := k.real[id]
		k.mu.Unlock()
		if m != nil {
			m.Unlock()
		}
	}
	return nil
}

// HeldKeys lists keys held in the model (oracle: no lock left held).
func HeldKeys(x KeyMutex) []string {
	k, ok := x.(*km)
	if !ok {
		return nil
	}
	var out []string
	for id, l := range k.model {
		if l.Writer != nil {
			out = append(out, id)
		}
	}
	return out
}
