// Package vtime is a strictly increasing logical clock replacing time.Now() in the floatingip package,
// so that "newest first" is decided by the schedule and not by the wall clock.
package vtime

import (
	"sync/atomic"
	"time"
)

var ctr int64

var base = time.Date(2020, 1, 1, 0, 0, 0, 0, time.UTC)

// Now returns base + n seconds for the n-th call (whole seconds survive the JSON round trip of metav1.Time).
func Now() time.Time {
	n := atomic.AddInt64(&ctr, 1)
	return base.Add(time.Duration(n) * time.Second)
}

// Reset restarts the clock (called at the start of every execution).
func Reset() { atomic.StoreInt64(&ctr, 0) }
