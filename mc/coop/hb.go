package coop

import (
	"strconv"
	"fmt"
	"reflect"
	"runtime"
	"runtime/debug"
	"strings"
)

// Happens-before monitor: vector clocks per thread, release->acquire edges from the lock shims,
// spawn edges from Go(). Access() reports two conflicting accesses unordered by HB.

func join(a, b []int) []int {
	for len(a) < len(b) {
		a = append(a, 0)
	}
	for i := range b {
		if b[i] > a[i] {
			a[i] = b[i]
		}
	}
	return a
}

func hbAcquire(t *Thread, l *LockState, write bool) {
	t.VC = join(t.VC, l.WVC)
	if write {
		t.VC = join(t.VC, l.RVC)
	}
}

func hbRelease(t *Thread, l *LockState, write bool) {
	if t == nil {
		return
	}
	for len(t.VC) <= t.ID {
		t.VC = append(t.VC, 0)
	}
	if write {
		l.WVC = append([]int(nil), t.VC...)
	} else {
		l.RVC = join(l.RVC, t.VC)
	}
	t.VC[t.ID]++
}

type accessRec struct {
	tid   int
	clock int
	name  string
	pcs   [6]uintptr
	npc   int
}

func (a *accessRec) where() string {
	fr := runtime.CallersFrames(a.pcs[:a.npc])
	var out []string
	for {
		f, more := fr.Next()
		fn := f.Function
		if i := strings.LastIndex(fn, "/"); i >= 0 {
			fn = fn[i+1:]
		}
		if !strings.HasPrefix(fn, "coop.") {
			out = append(out, fmt.Sprintf("%s:%d", fn, f.Line))
		}
		if !more || len(out) >= 4 {
			break
		}
	}
	return strings.Join(out, " <- ")
}

type locState struct {
	lastW *accessRec
	reads map[int]*accessRec
}

var (
	locs      = map[uintptr]*locState{}
	hbEnabled bool
)

var gcPercentBefore = -2

// EnableHB switches the access monitor on/off and clears its state. While it is on the garbage collector is off: locations
// are identified by address, and an address must not be handed to a new object while the execution runs.
func EnableHB(on bool) {
	if on && !hbEnabled {
		gcPercentBefore = debug.SetGCPercent(-1)
	}
	if !on && hbEnabled && gcPercentBefore != -2 {
		debug.SetGCPercent(gcPercentBefore)
	}
	hbEnabled = on
	locs = map[uintptr]*locState{}
}

// AccessF reports an access to the field f() points to; f may dereference nil (then nothing is reported).
func AccessF(f func() interface{}, name string, write bool) {
	if !hbEnabled || mode != Managed || cur == nil {
		return
	}
	var p interface{}
	func() {
		defer func() { _ = recover() }()
		p = f()
	}()
	if p == nil {
		return
	}
	v := reflect.ValueOf(p)
	if v.Kind() != reflect.Ptr || v.IsNil() {
		return
	}
	Access(v.Pointer(), name, write)
}

// AccessStructF reports an access to every field of the struct f() points to (a whole-struct copy or assignment).
func AccessStructF(f func() interface{}, name string, write bool) {
	if !hbEnabled || mode != Managed || cur == nil {
		return
	}
	var p interface{}
	func() {
		defer func() { _ = recover() }()
		p = f()
	}()
	if p == nil {
		return
	}
	v := reflect.ValueOf(p)
	if v.Kind() != reflect.Ptr || v.IsNil() || v.Elem().Kind() != reflect.Struct {
		return
	}
	accessFields(v.Elem(), name, write, 0)
}

// AccessElemsF reports an access to every field of every element of the slice f() returns (struct elements): an append or
// copy into a backing array that other holders of the slice may still be walking.
func AccessElemsF(f func() interface{}, name string, write bool) {
	if !hbEnabled || mode != Managed || cur == nil {
		return
	}
	var p interface{}
	func() {
		defer func() { _ = recover() }()
		p = f()
	}()
	if p == nil {
		return
	}
	v := reflect.ValueOf(p)
	if v.Kind() != reflect.Slice {
		return
	}
	for i := 0; i < v.Len(); i++ {
		if e := v.Index(i); e.Kind() == reflect.Struct && e.CanAddr() {
			accessFields(e, name+"["+strconv.Itoa(i)+"]", write, 0)
		}
	}
}

func accessFields(s reflect.Value, name string, write bool, depth int) {
	t := s.Type()
	for i := 0; i < s.NumField(); i++ {
		f := s.Field(i)
		if !f.CanAddr() {
			continue
		}
		ft := t.Field(i)
		if pk := ft.Type.PkgPath(); pk == "sync" || strings.HasSuffix(pk, "/vsync") || strings.HasSuffix(pk, "/vkeymutex") {
			continue
		}
		if f.Kind() == reflect.Struct && depth < 3 && strings.HasPrefix(ft.Type.PkgPath(), "tkestack.io/galaxy/") {
			accessFields(f, name+"."+ft.Name, write, depth+1)
			continue
		}
		Access(f.Addr().Pointer(), name+"."+ft.Name, write)
	}
}

// Access records a read or write of the shared location loc by the running thread.
func Access(loc uintptr, name string, write bool) {
	if !hbEnabled || mode != Managed || cur == nil {
		return
	}
	t := cur.running
	for len(t.VC) <= t.ID {
		t.VC = append(t.VC, 0)
	}
	ls := locs[loc]
	if ls == nil {
		ls = &locState{reads: map[int]*accessRec{}}
		locs[loc] = ls
	}
	me := &accessRec{tid: t.ID, clock: t.VC[t.ID], name: name}
	me.npc = runtime.Callers(2, me.pcs[:])
	ordered := func(a *accessRec) bool {
		if a == nil || a.tid == t.ID {
			return true
		}
		return a.clock <= vcAt(t.VC, a.tid)
	}
	report := func(a *accessRec, kind string) {
		if len(cur.Races) >= 20 {
			return
		}
		cur.Races = append(cur.Races, fmt.Sprintf("%s on %s: thread %d at [%s] vs thread %d at [%s]",
			kind, name, a.tid, a.where(), t.ID, me.where()))
	}
	if !ordered(ls.lastW) {
		report(ls.lastW, map[bool]string{true: "write/write", false: "write/read"}[write])
	}
	if write {
		for _, r := range ls.reads {
			if !ordered(r) {
				report(r, "read/write")
			}
		}
		ls.lastW = me
		ls.reads = map[int]*accessRec{}
	} else {
		ls.reads[t.ID] = me
	}
}

func vcAt(vc []int, i int) int {
	if i < len(vc) {
		return vc[i]
	}
	return 0
}

// AccessAddr reports an access to the variable p points to (a struct field).
func AccessAddr(p interface{}, name string, write bool) {
	if !hbEnabled || mode != Managed || cur == nil {
		return
	}
	Access(reflect.ValueOf(p).Pointer(), name, write)
}

// AccessMap reports an access to the map object m (identified by the map itself, not by the variable holding it).
func AccessMap(m interface{}, name string, write bool) {
	if !hbEnabled || mode != Managed || cur == nil {
		return
	}
	v := reflect.ValueOf(m)
	if v.Kind() != reflect.Map || v.IsNil() {
		return
	}
	Access(v.Pointer(), name, write)
}
