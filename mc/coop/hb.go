package coop

import (
	"fmt"
	"reflect"
	"runtime"
	"strings"
)

// Happens-before monitor: vector clocks per thread, release->acquire edges from the lock shims,
// spawn edges from Go(). Access() reports two conflicting accesses unordered by HB.

func join(a, b []int) []int {
	for len(a) < len(b) {
		a = append(a, 0)
	}
	for i := range b {
		if b[i] > a[i] {
			a[i] = b[i]
		}
	}
	return a
}

func hbAcquire(t *Thread, l *LockState, write bool) {
	t.VC = join(t.VC, l.WVC)
	if write {
		t.VC = join(t.VC, l.RVC)
	}
}

func hbRelease(t *Thread, l *LockState, write bool) {
	if t == nil {
		return
	}
	for len(t.VC) <= t.ID {
		t.VC = append(t.VC, 0)
	}
	if write {
		l.WVC = append([]int(nil), t.VC...)
	} else {
		l.RVC = join(l.RVC, t.VC)
	}
	t.VC[t.ID]++
}

type accessRec struct {
	tid   int
	clock int
	name  string
	where string
}

type locState struct {
	lastW *accessRec
	reads map[int]*accessRec
}

var (
	locs      = map[uintptr]*locState{}
	hbEnabled bool
)

// EnableHB switches the access monitor on/off and clears its state.
func EnableHB(on bool) {
	hbEnabled = on
	locs = map[uintptr]*locState{}
}

func caller() string {
	var pcs [6]uintptr
	n := runtime.Callers(3, pcs[:])
	fr := runtime.CallersFrames(pcs[:n])
	var out []string
	for {
		f, more := fr.Next()
		fn := f.Function
		if i := strings.LastIndex(fn, "/"); i >= 0 {
			fn = fn[i+1:]
		}
		out = append(out, fmt.Sprintf("%s:%d", fn, f.Line))
		if !more || len(out) >= 4 {
			break
		}
	}
	return strings.Join(out, " <- ")
}

// Access records a read or write of the shared location loc by the running thread.
func Access(loc uintptr, name string, write bool) {
	if !hbEnabled || mode != Managed || cur == nil {
		return
	}
	t := cur.running
	for len(t.VC) <= t.ID {
		t.VC = append(t.VC, 0)
	}
	ls := locs[loc]
	if ls == nil {
		ls = &locState{reads: map[int]*accessRec{}}
		locs[loc] = ls
	}
	me := &accessRec{tid: t.ID, clock: t.VC[t.ID], name: name}
	ordered := func(a *accessRec) bool {
		if a == nil || a.tid == t.ID {
			return true
		}
		return a.clock <= vcAt(t.VC, a.tid)
	}
	report := func(a *accessRec, kind string) {
		me.where = caller()
		cur.Races = append(cur.Races, fmt.Sprintf("%s on %s: thread %d at [%s] vs thread %d at [%s]",
			kind, name, a.tid, a.where, t.ID, me.where))
	}
	if !ordered(ls.lastW) {
		report(ls.lastW, map[bool]string{true: "write/write", false: "write/read"}[write])
	}
	if write {
		for _, r := range ls.reads {
			if !ordered(r) {
				report(r, "read/write")
			}
		}
		me.where = caller()
		ls.lastW = me
		ls.reads = map[int]*accessRec{}
	} else {
		me.where = caller()
		ls.reads[t.ID] = me
	}
}

func vcAt(vc []int, i int) int {
	if i < len(vc) {
		return vc[i]
	}
	return 0
}

// AccessAddr reports an access to the variable p points to (a struct field).
func AccessAddr(p interface{}, name string, write bool) {
	if !hbEnabled || mode != Managed || cur == nil {
		return
	}
	Access(reflect.ValueOf(p).Pointer(), name, write)
}

// AccessMap reports an access to the map object m (identified by the map itself, not by the variable holding it).
func AccessMap(m interface{}, name string, write bool) {
	if !hbEnabled || mode != Managed || cur == nil {
		return
	}
	v := reflect.ValueOf(m)
	if v.Kind() != reflect.Map || v.IsNil() {
		return
	}
	Access(v.Pointer(), name, write)
}
