package instr

import (
	"encoding/json"
	"fmt"
	"go/ast"
	"go/build"
	"go/importer"
	"go/parser"
	"go/token"
	"go/types"
	"io"
	"os"
	"os/exec"
	"path/filepath"
	"strings"
)

// Typed pre-pass: the packages to instrument are type-checked (export data of their dependencies from `go list -export`),
// and every expression that reads or writes a field of a struct type declared in a galaxy package is marked for the
// happens-before monitor. Keys are byte offsets in the original file, so that the syntactic rewriter (which parses the same
// source again) can look its nodes up.

const galaxyPrefix = "tkestack.io/galaxy/"

// excludedStructs are handed from one goroutine to another through a channel, which the monitor does not model.
var excludedStructs = map[string]bool{"releaseEvent": true, "resyncObj": false}

// TypedInfo marks, per repository-relative file, the offsets of monitored selector expressions (field accesses) and of
// monitored dereferences (whole-struct copies).
type TypedInfo struct {
	Fields map[string]map[int]Mark // file -> offset of the SelectorExpr's end -> mark
	Derefs map[string]map[int]Mark // file -> offset of the StarExpr -> mark
	// MapRanges: file -> offset of a range statement over a map with string keys whose range expression is free of side
	// effects (its iteration order is made deterministic)
	MapRanges map[string]map[int]bool
	// ElemRanges: file -> offset of a range statement with a value variable over a slice of galaxy structs (each iteration
	// copies one element out of the backing array); AppendsInPlace: file -> offset of an assignment x = append(y[i:j], ...) to
	// such a slice (elements are written into a backing array other holders may share)
	ElemRanges     map[string]map[int]bool
	AppendsInPlace map[string]map[int]bool
	// MapWrites: file -> offset of a statement that stores into or deletes from a map with string keys (m[k] = v, delete(m, k))
	// -> the map expression's source text; reported by the identity of the map object, so that a range over a copy of the map
	// header meets it
	MapWrites map[string]map[int]string
	Errors []string
}

// Mark is one monitored expression: its display name and the offsets (same file) at which the variables it mentions are
// declared (an access cannot be reported before a statement that declares one of them itself).
type Mark struct {
	Name  string
	Decls []int
}

func goListExports(repo string, pkgs []string) (map[string]string, error) {
	args := []string{"list", "-tags", "verif", "-export", "-deps", "-json=ImportPath,Export"}
	for _, p := range pkgs {
		args = append(args, "./"+p)
	}
	cmd := exec.Command("go", args...)
	cmd.Dir = repo
	cmd.Env = append(os.Environ(), "GOFLAGS=-mod=mod", "GOPROXY=off", "GOSUMDB=off", "GOTOOLCHAIN=local")
	out, err := cmd.Output()
	if err != nil {
		msg := ""
		if ee, ok := err.(*exec.ExitError); ok {
			msg = string(ee.Stderr)
		}
		return nil, fmt.Errorf("go list -export: %v %s", err, msg)
	}
	exports := map[string]string{}
	dec := json.NewDecoder(strings.NewReader(string(out)))
	for dec.More() {
		var e struct{ ImportPath, Export string }
		if err := dec.Decode(&e); err != nil {
			return nil, err
		}
		if e.Export != "" {
			exports[e.ImportPath] = e.Export
		}
	}
	return exports, nil
}

// TypeCheck computes the marks for the given packages. extra overrides file contents (repo-relative paths).
func TypeCheck(repo string, pkgs []string, extra map[string]string) (*TypedInfo, error) {
	ti := &TypedInfo{Fields: map[string]map[int]Mark{}, Derefs: map[string]map[int]Mark{}, MapRanges: map[string]map[int]bool{}, ElemRanges: map[string]map[int]bool{}, AppendsInPlace: map[string]map[int]bool{}, MapWrites: map[string]map[int]string{}}
	exports, err := goListExports(repo, pkgs)
	if err != nil {
		return nil, err
	}
	ctxt := build.Default
	ctxt.BuildTags = append(ctxt.BuildTags, "verif")
	for _, pkg := range pkgs {
		fset := token.NewFileSet()
		lookup := func(path string) (io.ReadCloser, error) {
			f, ok := exports[path]
			if !ok {
				return nil, fmt.Errorf("no export data for %s", path)
			}
			return os.Open(f)
		}
		imp := importer.ForCompiler(fset, "gc", lookup)
		dir := filepath.Join(repo, pkg)
		ents, err := os.ReadDir(dir)
		if err != nil {
			return nil, err
		}
		var files []*ast.File
		var rels []string
		for _, e := range ents {
			name := e.Name()
			if e.IsDir() || !strings.HasSuffix(name, ".go") || strings.HasSuffix(name, "_test.go") {
				continue
			}
			if ok, _ := ctxt.MatchFile(dir, name); !ok {
				continue
			}
			rel := filepath.Join(pkg, name)
			src, err := os.ReadFile(filepath.Join(dir, name))
			if err != nil {
				return nil, err
			}
			if x, ok := extra[rel]; ok {
				src = []byte(x)
			}
			f, err := parser.ParseFile(fset, rel, src, parser.ParseComments)
			if err != nil {
				ti.Errors = append(ti.Errors, rel+": "+err.Error())
				continue
			}
			files = append(files, f)
			rels = append(rels, rel)
		}
		info := &types.Info{Types: map[ast.Expr]types.TypeAndValue{}, Selections: map[*ast.SelectorExpr]*types.Selection{}, Uses: map[*ast.Ident]types.Object{}, Defs: map[*ast.Ident]types.Object{}}
		conf := types.Config{Importer: imp, Error: func(err error) { ti.Errors = append(ti.Errors, err.Error()) }}
		_, _ = conf.Check(galaxyPrefix+pkg, fset, files, info)
		for i, f := range files {
			markFile(fset, f, rels[i], info, ti)
		}
	}
	return ti, nil
}

func isSyncLike(t types.Type) bool {
	if p, ok := t.(*types.Pointer); ok {
		t = p.Elem()
	}
	if _, ok := t.Underlying().(*types.Chan); ok {
		return true
	}
	n, ok := t.(*types.Named)
	if !ok || n.Obj().Pkg() == nil {
		return false
	}
	switch n.Obj().Pkg().Path() {
	case "sync", "sync/atomic", "k8s.io/utils/keymutex":
		return true
	}
	return false
}

func galaxyStruct(t types.Type) (*types.Named, bool) {
	if p, ok := t.(*types.Pointer); ok {
		t = p.Elem()
	}
	n, ok := t.(*types.Named)
	if !ok || n.Obj().Pkg() == nil || !strings.HasPrefix(n.Obj().Pkg().Path()+"/", galaxyPrefix) {
		return nil, false
	}
	if _, ok := n.Underlying().(*types.Struct); !ok {
		return nil, false
	}
	if excludedStructs[n.Obj().Name()] {
		return nil, false
	}
	return n, true
}

// stringKeyMap: is e a map with string keys?
func stringKeyMap(info *types.Info, e ast.Expr) bool {
	tv, ok := info.Types[e]
	if !ok {
		return false
	}
	m, ok := tv.Type.Underlying().(*types.Map)
	if !ok {
		return false
	}
	b, ok := m.Key().Underlying().(*types.Basic)
	return ok && b.Kind() == types.String
}

// structSlice: is e a slice whose elements are galaxy structs (values, not pointers)?
func structSlice(info *types.Info, e ast.Expr) bool {
	tv, ok := info.Types[e]
	if !ok {
		return false
	}
	sl, ok := tv.Type.Underlying().(*types.Slice)
	if !ok {
		return false
	}
	if _, isPtr := sl.Elem().(*types.Pointer); isPtr {
		return false
	}
	_, ok = galaxyStruct(sl.Elem())
	return ok
}

// sideEffectFree: identifiers, selector chains, index expressions and dereferences of such (no calls, no receives).
func sideEffectFree(e ast.Expr) bool {
	switch v := e.(type) {
	case *ast.Ident:
		return true
	case *ast.SelectorExpr:
		return sideEffectFree(v.X)
	case *ast.IndexExpr:
		return sideEffectFree(v.X) && sideEffectFree(v.Index)
	case *ast.StarExpr:
		return sideEffectFree(v.X)
	case *ast.ParenExpr:
		return sideEffectFree(v.X)
	case *ast.BasicLit:
		return true
	}
	return false
}

func markFile(fset *token.FileSet, f *ast.File, rel string, info *types.Info, ti *TypedInfo) {
	fields, derefs := map[int]Mark{}, map[int]Mark{}
	decls := func(e ast.Expr) []int {
		var out []int
		ast.Inspect(e, func(n ast.Node) bool {
			if id, ok := n.(*ast.Ident); ok {
				if obj := info.Uses[id]; obj != nil && obj.Pos().IsValid() {
					if p := fset.Position(obj.Pos()); p.Filename == rel {
						out = append(out, p.Offset)
					}
				}
			}
			return true
		})
		return out
	}
	ast.Inspect(f, func(n ast.Node) bool {
		switch v := n.(type) {
		case *ast.ExprStmt:
			if call, ok := v.X.(*ast.CallExpr); ok && len(call.Args) == 2 {
				if id, ok := call.Fun.(*ast.Ident); ok && id.Name == "delete" {
					if _, isBuiltin := info.Uses[id].(*types.Builtin); isBuiltin && stringKeyMap(info, call.Args[0]) && sideEffectFree(call.Args[0]) {
						if ti.MapWrites[rel] == nil {
							ti.MapWrites[rel] = map[int]string{}
						}
						ti.MapWrites[rel][fset.Position(v.Pos()).Offset] = types.ExprString(call.Args[0])
					}
				}
			}
			return true
		case *ast.AssignStmt:
			for _, l := range v.Lhs {
				if ix, ok := l.(*ast.IndexExpr); ok && stringKeyMap(info, ix.X) && sideEffectFree(ix.X) {
					if ti.MapWrites[rel] == nil {
						ti.MapWrites[rel] = map[int]string{}
					}
					ti.MapWrites[rel][fset.Position(v.Pos()).Offset] = types.ExprString(ix.X)
					break
				}
			}
			if len(v.Lhs) == 1 && len(v.Rhs) == 1 && sideEffectFree(v.Lhs[0]) {
				if call, ok := v.Rhs[0].(*ast.CallExpr); ok && len(call.Args) > 0 {
					if id, ok := call.Fun.(*ast.Ident); ok && id.Name == "append" {
						if _, isBuiltin := info.Uses[id].(*types.Builtin); isBuiltin {
							if _, inPlace := call.Args[0].(*ast.SliceExpr); inPlace && structSlice(info, v.Lhs[0]) {
								if ti.AppendsInPlace[rel] == nil {
									ti.AppendsInPlace[rel] = map[int]bool{}
								}
								ti.AppendsInPlace[rel][fset.Position(v.Pos()).Offset] = true
							}
						}
					}
				}
			}
			return true
		case *ast.RangeStmt:
			if vid, ok := v.Value.(*ast.Ident); ok && vid.Name != "_" && v.Tok == token.DEFINE && sideEffectFree(v.X) && structSlice(info, v.X) {
				if ti.ElemRanges[rel] == nil {
					ti.ElemRanges[rel] = map[int]bool{}
				}
				ti.ElemRanges[rel][fset.Position(v.Pos()).Offset] = true
			}
			if tv, ok := info.Types[v.X]; ok && sideEffectFree(v.X) {
				if m, ok := tv.Type.Underlying().(*types.Map); ok {
					if b, ok := m.Key().Underlying().(*types.Basic); ok && b.Kind() == types.String {
						if ti.MapRanges[rel] == nil {
							ti.MapRanges[rel] = map[int]bool{}
						}
						ti.MapRanges[rel][fset.Position(v.Pos()).Offset] = true
					}
				}
			}
			return true
		case *ast.SelectorExpr:
			sel := info.Selections[v]
			if sel == nil || sel.Kind() != types.FieldVal {
				return true
			}
			fv, ok := sel.Obj().(*types.Var)
			if !ok || fv.Pkg() == nil || !strings.HasPrefix(fv.Pkg().Path()+"/", galaxyPrefix) {
				return true
			}
			if isSyncLike(fv.Type()) {
				return true
			}
			recv, ok := galaxyStruct(sel.Recv())
			if !ok {
				return true
			}
			tv, ok := info.Types[v.X]
			if !ok {
				return true
			}
			if _, isPtr := tv.Type.Underlying().(*types.Pointer); !isPtr && !tv.Addressable() {
				return true
			}
			if !sideEffectFree(v.X) {
				return true
			}
			fields[fset.Position(v.End()).Offset] = Mark{Name: recv.Obj().Name() + "." + fv.Name(), Decls: decls(v.X)}
		case *ast.StarExpr:
			tv, ok := info.Types[v]
			if !ok || !tv.IsValue() {
				return true
			}
			xt, ok := info.Types[v.X]
			if !ok {
				return true
			}
			if _, isPtr := xt.Type.Underlying().(*types.Pointer); !isPtr {
				return true
			}
			named, ok := galaxyStruct(xt.Type)
			if !ok || !sideEffectFree(v.X) {
				return true
			}
			derefs[fset.Position(v.Pos()).Offset] = Mark{Name: "*" + named.Obj().Name(), Decls: decls(v.X)}
		}
		return true
	})
	ti.Fields[rel] = fields
	ti.Derefs[rel] = derefs
}
