// Package instr generates a `go build -overlay` file that rewrites galaxy sources (from the
// current working tree of the repository) so that every source of blocking and nondeterminism is
// routed through the coop shims. Nothing in the repository is modified.
package instr

import (
	"bytes"
	"encoding/json"
	"fmt"
	"go/ast"
	"go/format"
	"go/parser"
	"go/token"
	"go/types"
	"os"
	"path/filepath"
	"strconv"
	"strings"
)

// Config selects what is rewritten.
type Config struct {
	Repo   string
	OutDir string
	// Pkgs are repository-relative package directories to instrument.
	Pkgs []string
	// Extra maps repo-relative file -> replacement content (mutants, added files).
	Extra map[string]string
	// Typed: type-check the packages and monitor every access to a field of a galaxy struct type (not only the listed names).
	Typed bool
}

const (
	shimSync  = "verif.local/mc/coop/vsync"
	shimKeyMu = "verif.local/mc/coop/vkeymutex"
	shimWait  = "verif.local/mc/coop/vwait"
	shimTime  = "verif.local/mc/coop/vtime"
	shimMap   = "verif.local/mc/coop/vmap"
	shimCoop  = "verif.local/mc/coop"
	realKeyMu = "k8s.io/utils/keymutex"
	realWait  = "k8s.io/apimachinery/pkg/util/wait"
)

// DefaultPkgs are the IPAM packages.
var DefaultPkgs = []string{
	"pkg/ipam/floatingip",
	"pkg/ipam/schedulerplugin",
	"pkg/ipam/crd",
	"pkg/ipam/api",
	"pkg/galaxy",
	"pkg/api/cniutil",
	"pkg/network/portmapping",
	"pkg/policy",
}

// monitoredFields: per package directory, the struct field names whose every access is reported to the happens-before
// monitor (coop.Access). Selector expressions are matched by field name (purely syntactic).
var monitoredFields = map[string]map[string]bool{
	"pkg/ipam/floatingip":      {"allocatedFIPs": true, "unallocatedFIPs": true, "FloatingIPs": true},
	"pkg/ipam/schedulerplugin": {"nodeSubnet": true, "lastIPConf": true, "keyToGVR": true},
	"pkg/ipam/crd":             {"startedInformers": true},
	"pkg/galaxy":               {"netConf": true},
	"pkg/network/portmapping":  {"podPortMap": true},
	"pkg/policy":               {"policies": true},
}

// mapIdentityFields: map-typed fields that are monitored by the identity of the map object (they are handed around).
var mapIdentityFields = map[string]map[string]bool{
	"pkg/api/cniutil": {"Conf": true},
}

// pointFuncs: functions at whose entry a scheduling point is inserted (plugin invocations and state-file accesses).
var pointFuncs = map[string]map[string]bool{
	"pkg/api/cniutil": {"DelegateAdd": true, "DelegateDel": true, "saveNetworkInfo": true, "consumeNetworkInfo": true},
	"pkg/galaxy":      {"setupPortMapping": true, "cleanupPortMapping": true},
}

// spawnFuncs: `go f(args)` statements calling one of these become managed threads under the scheduler.
var spawnFuncs = map[string]bool{"syncPodChains": true}

// rotFuncs: functions in which iteration order over the tables is an environment choice.
var rotFuncs = map[string]bool{
	"AllocateInSubnet": true, "First": true, "ByKeyAndIPRanges": true, "ReserveIP": true, "ReleaseIPs": true,
}

// mapExprs are the range expressions (source text) known to be map[string]T in the target packages.
var mapExprs = map[string]bool{
	"ci.unallocatedFIPs": true, "ci.allocatedFIPs": true, "ipToKey": true,
}

// Report says what was done per file.
type Report struct {
	Files    int
	Rewrites map[string]int
	Failed   []string
}

// Generate writes rewritten copies and overlay.json into cfg.OutDir and returns the overlay path.
func Generate(cfg Config) (string, *Report, error) {
	rep := &Report{Rewrites: map[string]int{}}
	replace := map[string]string{}
	if err := os.MkdirAll(cfg.OutDir, 0o755); err != nil {
		return "", nil, err
	}
	var typed *TypedInfo
	if cfg.Typed {
		ti, err := TypeCheck(cfg.Repo, cfg.Pkgs, cfg.Extra)
		if err != nil {
			rep.Failed = append(rep.Failed, "typed pre-pass (falling back to the listed field names): "+err.Error())
		} else {
			typed = ti
			if len(ti.Errors) > 0 {
				rep.Failed = append(rep.Failed, fmt.Sprintf("typed pre-pass: %d type errors, first: %s", len(ti.Errors), ti.Errors[0]))
			}
		}
	}
	for _, pkg := range cfg.Pkgs {
		dir := filepath.Join(cfg.Repo, pkg)
		ents, err := os.ReadDir(dir)
		if err != nil {
			return "", nil, err
		}
		for _, e := range ents {
			name := e.Name()
			if e.IsDir() || !strings.HasSuffix(name, ".go") || strings.HasSuffix(name, "_test.go") {
				continue
			}
			rel := filepath.Join(pkg, name)
			src, err := os.ReadFile(filepath.Join(dir, name))
			if err != nil {
				return "", nil, err
			}
			if x, ok := cfg.Extra[rel]; ok {
				src = []byte(x)
			}
			src = exportGoBodies(rel, src, rep)
			out, n, err := rewriteFile(rel, src, rep, typed)
			if err != nil {
				rep.Failed = append(rep.Failed, rel+": "+err.Error())
				out = src
			}
			_ = n
			dst := filepath.Join(cfg.OutDir, strings.ReplaceAll(rel, "/", "__"))
			if err := os.WriteFile(dst, out, 0o644); err != nil {
				return "", nil, err
			}
			replace[filepath.Join(cfg.Repo, rel)] = dst
			rep.Files++
		}
	}
	for rel, content := range cfg.Extra {
		abs := filepath.Join(cfg.Repo, rel)
		if _, done := replace[abs]; done {
			continue
		}
		dst := filepath.Join(cfg.OutDir, "extra__"+strings.ReplaceAll(rel, "/", "__"))
		if err := os.WriteFile(dst, []byte(content), 0o644); err != nil {
			return "", nil, err
		}
		replace[abs] = dst
	}
	ov, _ := json.MarshalIndent(map[string]interface{}{"Replace": replace}, "", " ")
	ovPath := filepath.Join(cfg.OutDir, "overlay.json")
	if err := os.WriteFile(ovPath, ov, 0o644); err != nil {
		return "", nil, err
	}
	return ovPath, rep, nil
}

func rewriteFile(rel string, src []byte, rep *Report, typed *TypedInfo) ([]byte, int, error) {
	fset := token.NewFileSet()
	f, err := parser.ParseFile(fset, rel, src, parser.ParseComments)
	if err != nil {
		return nil, 0, err
	}
	n := 0
	pkgDir := filepath.Dir(rel)
	needImports := map[string]string{} // path -> name
	// 1. import rewrites
	timeName := ""
	for _, imp := range f.Imports {
		p, _ := strconv.Unquote(imp.Path.Value)
		switch p {
		case "sync":
			imp.Path.Value = strconv.Quote(shimSync)
			if imp.Name == nil {
				imp.Name = ast.NewIdent("sync")
			}
			n++
			rep.Rewrites["import sync"]++
		case realKeyMu:
			imp.Path.Value = strconv.Quote(shimKeyMu)
			if imp.Name == nil {
				imp.Name = ast.NewIdent("keymutex")
			}
			n++
			rep.Rewrites["import keymutex"]++
		case realWait:
			imp.Path.Value = strconv.Quote(shimWait)
			if imp.Name == nil {
				imp.Name = ast.NewIdent("wait")
			}
			n++
			rep.Rewrites["import wait"]++
		case "time":
			timeName = "time"
			if imp.Name != nil {
				timeName = imp.Name.Name
			}
		}
	}
	// 2. time.Now() -> vtime.Now() (floatingip package only: UpdatedAt ordering)
	if strings.HasSuffix(pkgDir, "pkg/ipam/floatingip") && timeName != "" {
		ast.Inspect(f, func(nd ast.Node) bool {
			call, ok := nd.(*ast.CallExpr)
			if !ok {
				return true
			}
			sel, ok := call.Fun.(*ast.SelectorExpr)
			if !ok {
				return true
			}
			if id, ok := sel.X.(*ast.Ident); ok && id.Name == timeName && sel.Sel.Name == "Now" && len(call.Args) == 0 {
				id.Name = "vtime"
				needImports[shimTime] = "vtime"
				n++
				rep.Rewrites["time.Now"]++
			}
			return true
		})
	}
	if timeName != "" {
		used := false
		ast.Inspect(f, func(nd ast.Node) bool {
			if sel, ok := nd.(*ast.SelectorExpr); ok {
				if id, ok := sel.X.(*ast.Ident); ok && id.Name == timeName {
					used = true
				}
			}
			return true
		})
		if !used {
			for _, imp := range f.Imports {
				if p, _ := strconv.Unquote(imp.Path.Value); p == "time" {
					imp.Name = ast.NewIdent("_")
				}
			}
		}
	}
	// 2b. os.Setenv / Getenv / ... -> vcoop.Setenv / Getenv / ... (the process environment is shared state)
	osName := ""
	for _, imp := range f.Imports {
		if p, _ := strconv.Unquote(imp.Path.Value); p == "os" {
			osName = "os"
			if imp.Name != nil {
				osName = imp.Name.Name
			}
		}
	}
	if osName != "" && osName != "_" && osName != "." {
		envFuncs := map[string]bool{"Setenv": true, "Unsetenv": true, "Getenv": true, "LookupEnv": true, "Environ": true, "Clearenv": true}
		ast.Inspect(f, func(nd ast.Node) bool {
			sel, ok := nd.(*ast.SelectorExpr)
			if !ok {
				return true
			}
			if id, ok := sel.X.(*ast.Ident); ok && id.Name == osName && id.Obj == nil && envFuncs[sel.Sel.Name] {
				id.Name = "vcoop"
				needImports[shimCoop] = "vcoop"
				n++
				rep.Rewrites["os env"]++
			}
			return true
		})
		used := false
		ast.Inspect(f, func(nd ast.Node) bool {
			if sel, ok := nd.(*ast.SelectorExpr); ok {
				if id, ok := sel.X.(*ast.Ident); ok && id.Name == osName && id.Obj == nil {
					used = true
				}
			}
			return true
		})
		if !used {
			for _, imp := range f.Imports {
				if p, _ := strconv.Unquote(imp.Path.Value); p == "os" {
					imp.Name = ast.NewIdent("_")
				}
			}
		}
	}
	// 3. UnsortedList -> List
	ast.Inspect(f, func(nd ast.Node) bool {
		if sel, ok := nd.(*ast.SelectorExpr); ok && sel.Sel.Name == "UnsortedList" {
			sel.Sel.Name = "List"
			n++
			rep.Rewrites["UnsortedList"]++
		}
		return true
	})
	// 4. map ranges
	for _, d := range f.Decls {
		fd, ok := d.(*ast.FuncDecl)
		if !ok || fd.Body == nil {
			continue
		}
		fn := "SortedKeys"
		if rotFuncs[fd.Name.Name] {
			fn = "Keys"
		}
		cnt := 0
		ast.Inspect(fd.Body, func(nd ast.Node) bool {
			rs, ok := nd.(*ast.RangeStmt)
			if !ok || rs.Tok != token.DEFINE || rs.Key == nil {
				return true
			}
			xs := types.ExprString(rs.X)
			if !mapExprs[xs] && !(typed != nil && typed.MapRanges[rel][fset.Position(rs.Pos()).Offset]) {
				return true
			}
			cnt++
			keyId, _ := rs.Key.(*ast.Ident)
			if keyId == nil {
				return true
			}
			kname := keyId.Name
			if kname == "_" {
				kname = fmt.Sprintf("vk__%d", cnt)
			}
			var pre []ast.Stmt
			if rs.Value != nil {
				if vid, ok := rs.Value.(*ast.Ident); ok && vid.Name != "_" {
					okName := fmt.Sprintf("vok__%d", cnt)
					pre = append(pre,
						&ast.AssignStmt{
							Lhs: []ast.Expr{ast.NewIdent(vid.Name), ast.NewIdent(okName)},
							Tok: token.DEFINE,
							Rhs: []ast.Expr{&ast.IndexExpr{X: rs.X, Index: ast.NewIdent(kname)}},
						},
						&ast.IfStmt{
							Cond: &ast.UnaryExpr{Op: token.NOT, X: ast.NewIdent(okName)},
							Body: &ast.BlockStmt{List: []ast.Stmt{&ast.BranchStmt{Tok: token.CONTINUE}}},
						},
						&ast.AssignStmt{Lhs: []ast.Expr{ast.NewIdent("_")}, Tok: token.ASSIGN, Rhs: []ast.Expr{ast.NewIdent(vid.Name)}},
					)
				}
			}
			if keyId.Name != "_" {
				pre = append(pre, &ast.AssignStmt{Lhs: []ast.Expr{ast.NewIdent("_")}, Tok: token.ASSIGN, Rhs: []ast.Expr{ast.NewIdent(kname)}})
			}
			rs.Body.List = append(pre, rs.Body.List...)
			rs.Key = ast.NewIdent("_")
			rs.Value = ast.NewIdent(kname)
			rs.X = &ast.CallExpr{
				Fun:  &ast.SelectorExpr{X: ast.NewIdent("vmap"), Sel: ast.NewIdent(fn)},
				Args: []ast.Expr{rs.X},
			}
			needImports[shimMap] = "vmap"
			n++
			rep.Rewrites["maprange "+fn]++
			return true
		})
	}
	// 5. access monitoring, scheduling points, spawned goroutines
	n += instrumentAccesses(fset, rel, typed, f, pkgDir, needImports, rep)
	// add imports
	for p, name := range needImports {
		addImport(f, name, p)
	}
	var buf bytes.Buffer
	if err := format.Node(&buf, fset, f); err != nil {
		return nil, 0, err
	}
	return buf.Bytes(), n, nil
}

func addImport(f *ast.File, name, path string) {
	spec := &ast.ImportSpec{Name: ast.NewIdent(name), Path: &ast.BasicLit{Kind: token.STRING, Value: strconv.Quote(path)}}
	for _, d := range f.Decls {
		if gd, ok := d.(*ast.GenDecl); ok && gd.Tok == token.IMPORT {
			gd.Specs = append(gd.Specs, spec)
			if !gd.Lparen.IsValid() {
				gd.Lparen = gd.Pos()
				gd.Rparen = gd.End()
			}
			f.Imports = append(f.Imports, spec)
			return
		}
	}
	gd := &ast.GenDecl{Tok: token.IMPORT, Specs: []ast.Spec{spec}}
	f.Decls = append([]ast.Decl{gd}, f.Decls...)
	f.Imports = append(f.Imports, spec)
}

// ---------------------------------------------------------------------------------------------
// access monitoring / points / spawn

func callCoop(fn string, args ...ast.Expr) *ast.ExprStmt {
	return &ast.ExprStmt{X: &ast.CallExpr{Fun: &ast.SelectorExpr{X: ast.NewIdent("vcoop"), Sel: ast.NewIdent(fn)}, Args: args}}
}

func strLit(s string) ast.Expr { return &ast.BasicLit{Kind: token.STRING, Value: strconv.Quote(s)} }

func boolLit(b bool) ast.Expr {
	if b {
		return ast.NewIdent("true")
	}
	return ast.NewIdent("false")
}

type accessInfo struct {
	expr  ast.Expr
	name  string
	write bool
	byMap bool
	// typed marks: guarded evaluation (closure + recover); whole = dereference of a struct pointer (all fields)
	guarded bool
	whole   bool
}

// collectAccesses finds monitored selector expressions in the given nodes (not descending into function literals).
func collectAccesses(pkgDir string, nodes []ast.Node, writes map[ast.Expr]bool, tm *typedMarks) []accessInfo {
	fields, idFields := monitoredFields[pkgDir], mapIdentityFields[pkgDir]
	var out []accessInfo
	seen := map[string]int{}
	add := func(e ast.Expr, name string, w, whole bool) {
		key := types.ExprString(e)
		if whole {
			key = "*" + key
		}
		if i, dup := seen[key]; dup {
			if w {
				out[i].write = true
			}
			return
		}
		seen[key] = len(out)
		out = append(out, accessInfo{expr: e, name: name, write: w, guarded: true, whole: whole})
	}
	for _, nd := range nodes {
		if nd == nil {
			continue
		}
		ast.Inspect(nd, func(x ast.Node) bool {
			if _, ok := x.(*ast.FuncLit); ok {
				return false
			}
			if tm != nil {
				switch v := x.(type) {
				case *ast.SelectorExpr:
					if m, ok := tm.fields[tm.fset.Position(v.End()).Offset]; ok && v.End().IsValid() && !tm.declaredInside(m) {
						add(v, m.Name, writes[v], false)
					}
					if idFields[v.Sel.Name] {
						break // the map-identity fields keep their own treatment below
					}
					return true
				case *ast.StarExpr:
					if m, ok := tm.derefs[tm.fset.Position(v.Pos()).Offset]; ok && v.Pos().IsValid() && !tm.declaredInside(m) {
						add(v.X, m.Name, writes[v], true)
					}
					return true
				}
			}
			sel, ok := x.(*ast.SelectorExpr)
			if !ok {
				return true
			}
			if tm != nil && !idFields[sel.Sel.Name] {
				return true
			}
			byMap := idFields[sel.Sel.Name]
			if !fields[sel.Sel.Name] && !byMap {
				return true
			}
			// the receiver must be a plain identifier or selector chain (addressable, side-effect free)
			switch sel.X.(type) {
			case *ast.Ident, *ast.SelectorExpr:
			default:
				return true
			}
			key := types.ExprString(sel)
			w := writes[sel]
			if i, dup := seen[key]; dup {
				if w {
					out[i].write = true
				}
				return true
			}
			seen[key] = len(out)
			out = append(out, accessInfo{expr: sel, name: key, write: w, byMap: byMap})
			return true
		})
	}
	return out
}

// writtenSelectors marks selector expressions that a statement writes: assignment targets (also through index
// expressions), ++/--, and the first argument of delete().
func writtenSelectors(st ast.Stmt, writes map[ast.Expr]bool) {
	base := func(e ast.Expr) {
		for {
			switch v := e.(type) {
			case *ast.IndexExpr:
				e = v.X
				continue
			case *ast.ParenExpr:
				e = v.X
				continue
			case *ast.SelectorExpr:
				writes[v] = true
			case *ast.StarExpr:
				writes[v] = true
			}
			return
		}
	}
	switch s := st.(type) {
	case *ast.AssignStmt:
		for _, l := range s.Lhs {
			base(l)
		}
	case *ast.IncDecStmt:
		base(s.X)
	}
	ast.Inspect(st, func(x ast.Node) bool {
		if _, ok := x.(*ast.FuncLit); ok {
			return false
		}
		if c, ok := x.(*ast.CallExpr); ok {
			if id, ok := c.Fun.(*ast.Ident); ok && id.Name == "delete" && len(c.Args) > 0 {
				base(c.Args[0])
			}
		}
		return true
	})
}

// typedMarks are the marks of one file plus the span of the statement being instrumented.
type typedMarks struct {
	fset           *token.FileSet
	fields, derefs map[int]Mark
	lo, hi         int
}

func (t *typedMarks) declaredInside(m Mark) bool {
	for _, d := range m.Decls {
		if d >= t.lo && d < t.hi {
			return true
		}
	}
	return false
}

func thunk(e ast.Expr) ast.Expr {
	return &ast.FuncLit{Type: &ast.FuncType{Params: &ast.FieldList{}, Results: &ast.FieldList{List: []*ast.Field{{Type: &ast.InterfaceType{Methods: &ast.FieldList{}}}}}},
		Body: &ast.BlockStmt{List: []ast.Stmt{&ast.ReturnStmt{Results: []ast.Expr{e}}}}}
}

func accessStmts(acc []accessInfo) []ast.Stmt {
	var out []ast.Stmt
	for _, a := range acc {
		if a.guarded && a.whole {
			out = append(out, callCoop("AccessStructF", thunk(a.expr), strLit(a.name), boolLit(a.write)))
			continue
		}
		if a.guarded {
			out = append(out, callCoop("AccessF", thunk(&ast.UnaryExpr{Op: token.AND, X: a.expr}), strLit(a.name), boolLit(a.write)))
			continue
		}
		if a.byMap {
			out = append(out, callCoop("AccessMap", a.expr, strLit(a.name), boolLit(a.write)))
		} else {
			out = append(out, callCoop("AccessAddr", &ast.UnaryExpr{Op: token.AND, X: a.expr}, strLit(a.name), boolLit(a.write)))
		}
	}
	return out
}

func instrumentAccesses(fset *token.FileSet, rel string, typed *TypedInfo, f *ast.File, pkgDir string, needImports map[string]string, rep *Report) int {
	n := 0
	hasMon := len(monitoredFields[pkgDir]) > 0 || len(mapIdentityFields[pkgDir]) > 0
	var tm *typedMarks
	if typed != nil && typed.Fields[rel] != nil {
		tm = &typedMarks{fset: fset, fields: typed.Fields[rel], derefs: typed.Derefs[rel]}
		hasMon = true
	}
	waitShimmed := false
	for _, imp := range f.Imports {
		if p, _ := strconv.Unquote(imp.Path.Value); (p == shimWait || p == realWait) && (imp.Name == nil || imp.Name.Name == "wait") {
			waitShimmed = true
		}
	}
	var doList func(list []ast.Stmt) []ast.Stmt
	var doStmt func(st ast.Stmt)
	elemCnt := 0
	headerNodes := func(st ast.Stmt) []ast.Node {
		switch s := st.(type) {
		case *ast.IfStmt:
			return []ast.Node{s.Init, s.Cond}
		case *ast.ForStmt:
			return []ast.Node{s.Init, s.Cond, s.Post}
		case *ast.RangeStmt:
			return []ast.Node{s.X}
		case *ast.SwitchStmt:
			return []ast.Node{s.Init, s.Tag}
		case *ast.TypeSwitchStmt:
			return []ast.Node{s.Init, s.Assign}
		case *ast.BlockStmt, *ast.CaseClause, *ast.CommClause, *ast.SelectStmt, *ast.LabeledStmt:
			return nil
		}
		return []ast.Node{st}
	}
	fixNil := func(nodes []ast.Node) []ast.Node {
		var out []ast.Node
		for _, nd := range nodes {
			if nd == nil {
				continue
			}
			// typed nil interface values
			switch v := nd.(type) {
			case ast.Stmt:
				if v == nil {
					continue
				}
			case ast.Expr:
				if v == nil {
					continue
				}
			}
			out = append(out, nd)
		}
		return out
	}
	doFuncLits := func(nd ast.Node) {
		if nd == nil {
			return
		}
		ast.Inspect(nd, func(x ast.Node) bool {
			if fl, ok := x.(*ast.FuncLit); ok {
				fl.Body.List = doList(fl.Body.List)
				return false
			}
			return true
		})
	}
	doStmt = func(st ast.Stmt) {
		switch s := st.(type) {
		case *ast.BlockStmt:
			s.List = doList(s.List)
		case *ast.IfStmt:
			s.Body.List = doList(s.Body.List)
			if s.Else != nil {
				doStmt(s.Else)
			}
		case *ast.ForStmt:
			s.Body.List = doList(s.Body.List)
		case *ast.RangeStmt:
			s.Body.List = doList(s.Body.List)
			if typed != nil && typed.ElemRanges[rel][fset.Position(s.Pos()).Offset] {
				// every iteration copies one struct element out of the backing array: a read of all its fields
				elemCnt++
				kid, _ := s.Key.(*ast.Ident)
				if kid == nil || kid.Name == "_" {
					kid = ast.NewIdent(fmt.Sprintf("vi__%d", elemCnt))
					s.Key = kid
				}
				read := callCoop("AccessStructF", thunk(&ast.UnaryExpr{Op: token.AND, X: &ast.IndexExpr{X: s.X, Index: ast.NewIdent(kid.Name)}}),
					strLit(types.ExprString(s.X)+"[i]"), boolLit(false))
				use := &ast.AssignStmt{Lhs: []ast.Expr{ast.NewIdent("_")}, Tok: token.ASSIGN, Rhs: []ast.Expr{ast.NewIdent(kid.Name)}}
				s.Body.List = append([]ast.Stmt{use, read}, s.Body.List...)
				needImports[shimCoop] = "vcoop"
				n++
				rep.Rewrites["elem range"]++
			}
		case *ast.SwitchStmt:
			doStmt(s.Body)
		case *ast.TypeSwitchStmt:
			doStmt(s.Body)
		case *ast.SelectStmt:
			doStmt(s.Body)
		case *ast.CaseClause:
			s.Body = doList(s.Body)
		case *ast.CommClause:
			s.Body = doList(s.Body)
		case *ast.LabeledStmt:
			doStmt(s.Stmt)
		}
	}
	doList = func(list []ast.Stmt) []ast.Stmt {
		var out []ast.Stmt
		for _, st := range list {
			// spawned goroutines
			if g, ok := st.(*ast.GoStmt); ok {
				// `go wait.Until(...)` -> `wait.GoUntil(...)` (the shim starts the goroutine, or, for a sequential harness that
				// drives a start-up path, runs the function once in place)
				if se, ok := g.Call.Fun.(*ast.SelectorExpr); ok && se.Sel.Name == "Until" {
					if x, ok := se.X.(*ast.Ident); ok && x.Name == "wait" && waitShimmed {
						se.Sel = ast.NewIdent("GoUntil")
						doFuncLits(g.Call)
						out = append(out, &ast.ExprStmt{X: g.Call})
						n++
						rep.Rewrites["go wait.Until"]++
						continue
					}
				}
			}
			if g, ok := st.(*ast.GoStmt); ok {
				if id, ok := g.Call.Fun.(*ast.Ident); ok && spawnFuncs[id.Name] {
					var pre []ast.Stmt
					var args []ast.Expr
					for i, a := range g.Call.Args {
						tmp := fmt.Sprintf("vga__%d", i)
						pre = append(pre, &ast.AssignStmt{Lhs: []ast.Expr{ast.NewIdent(tmp)}, Tok: token.DEFINE, Rhs: []ast.Expr{a}})
						args = append(args, ast.NewIdent(tmp))
					}
					body := &ast.FuncLit{Type: &ast.FuncType{Params: &ast.FieldList{}}, Body: &ast.BlockStmt{List: []ast.Stmt{
						&ast.ExprStmt{X: &ast.CallExpr{Fun: g.Call.Fun, Args: args}}}}}
					pre = append(pre, callCoop("Spawn", strLit(id.Name), body))
					out = append(out, &ast.BlockStmt{List: pre})
					needImports[shimCoop] = "vcoop"
					n++
					rep.Rewrites["go->Spawn"]++
					continue
				}
			}
			if hasMon {
				writes := map[ast.Expr]bool{}
				hn := fixNil(headerNodes(st))
				for _, h := range hn {
					if hs, ok := h.(ast.Stmt); ok {
						writtenSelectors(hs, writes)
					}
				}
				if tm != nil {
					tm.lo, tm.hi = fset.Position(st.Pos()).Offset, fset.Position(st.End()).Offset
				}
				acc := collectAccesses(pkgDir, hn, writes, tm)
				if len(acc) > 0 {
					out = append(out, accessStmts(acc)...)
					needImports[shimCoop] = "vcoop"
					n += len(acc)
					rep.Rewrites["access"] += len(acc)
				}
			}
			if typed != nil {
				if mx, ok := typed.MapWrites[rel][fset.Position(st.Pos()).Offset]; ok {
					if e, err := parser.ParseExpr(mx); err == nil {
						out = append(out, callCoop("AccessMap", e, strLit(mx+" (map)"), boolLit(true)))
						needImports[shimCoop] = "vcoop"
						n++
						rep.Rewrites["map write"]++
					}
				}
			}
			doStmt(st)
			for _, h := range fixNil(headerNodes(st)) {
				doFuncLits(h)
			}
			out = append(out, st)
			if as, ok := st.(*ast.AssignStmt); ok && typed != nil && typed.AppendsInPlace[rel][fset.Position(as.Pos()).Offset] {
				// x = append(y[i:j], ...): elements were written into a backing array that may be shared
				out = append(out, callCoop("AccessElemsF", thunk(as.Lhs[0]), strLit(types.ExprString(as.Lhs[0])), boolLit(true)))
				needImports[shimCoop] = "vcoop"
				n++
				rep.Rewrites["append in place"]++
			}
		}
		return out
	}
	for _, d := range f.Decls {
		fd, ok := d.(*ast.FuncDecl)
		if !ok || fd.Body == nil {
			continue
		}
		fd.Body.List = doList(fd.Body.List)
		if pointFuncs[pkgDir][fd.Name.Name] {
			fd.Body.List = append([]ast.Stmt{callCoop("Point", strLit("cni"), strLit(fd.Name.Name))}, fd.Body.List...)
			needImports[shimCoop] = "vcoop"
			n++
			rep.Rewrites["point"]++
		}
	}
	return n
}
