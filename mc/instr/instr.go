// Package instr generates a `go build -overlay` file that rewrites galaxy sources (from the
// current working tree of the repository) so that every source of blocking and nondeterminism is
// routed through the coop shims. Nothing in the repository is modified.
package instr

import (
	"bytes"
	"encoding/json"
	"fmt"
	"go/ast"
	"go/format"
	"go/parser"
	"go/token"
	"go/types"
	"os"
	"path/filepath"
	"strconv"
	"strings"
)

// Config selects what is rewritten.
type Config struct {
	Repo   string
	OutDir string
	// Pkgs are repository-relative package directories to instrument.
	Pkgs []string
	// Extra maps repo-relative file -> replacement content (mutants, added files).
	Extra map[string]string
}

const (
	shimSync  = "verif.local/mc/coop/vsync"
	shimKeyMu = "verif.local/mc/coop/vkeymutex"
	shimWait  = "verif.local/mc/coop/vwait"
	shimTime  = "verif.local/mc/coop/vtime"
	shimMap   = "verif.local/mc/coop/vmap"
	shimCoop  = "verif.local/mc/coop"
	realKeyMu = "k8s.io/utils/keymutex"
	realWait  = "k8s.io/apimachinery/pkg/util/wait"
)

// DefaultPkgs are the IPAM packages.
var DefaultPkgs = []string{
	"pkg/ipam/floatingip",
	"pkg/ipam/schedulerplugin",
	"pkg/ipam/crd",
	"pkg/ipam/api",
}

// rotFuncs: functions in which iteration order over the tables is an environment choice.
var rotFuncs = map[string]bool{
	"AllocateInSubnet": true, "First": true, "ByKeyAndIPRanges": true, "ReserveIP": true, "ReleaseIPs": true,
}

// mapExprs are the range expressions (source text) known to be map[string]T in the target packages.
var mapExprs = map[string]bool{
	"ci.unallocatedFIPs": true, "ci.allocatedFIPs": true, "ipToKey": true,
}

// Report says what was done per file.
type Report struct {
	Files    int
	Rewrites map[string]int
	Failed   []string
}

// Generate writes rewritten copies and overlay.json into cfg.OutDir and returns the overlay path.
func Generate(cfg Config) (string, *Report, error) {
	rep := &Report{Rewrites: map[string]int{}}
	replace := map[string]string{}
	if err := os.MkdirAll(cfg.OutDir, 0o755); err != nil {
		return "", nil, err
	}
	for _, pkg := range cfg.Pkgs {
		dir := filepath.Join(cfg.Repo, pkg)
		ents, err := os.ReadDir(dir)
		if err != nil {
			return "", nil, err
		}
		for _, e := range ents {
			name := e.Name()
			if e.IsDir() || !strings.HasSuffix(name, ".go") || strings.HasSuffix(name, "_test.go") {
				continue
			}
			rel := filepath.Join(pkg, name)
			src, err := os.ReadFile(filepath.Join(dir, name))
			if err != nil {
				return "", nil, err
			}
			if x, ok := cfg.Extra[rel]; ok {
				src = []byte(x)
			}
			out, n, err := rewriteFile(rel, src, rep)
			if err != nil {
				rep.Failed = append(rep.Failed, rel+": "+err.Error())
				out = src
			}
			_ = n
			dst := filepath.Join(cfg.OutDir, strings.ReplaceAll(rel, "/", "__"))
			if err := os.WriteFile(dst, out, 0o644); err != nil {
				return "", nil, err
			}
			replace[filepath.Join(cfg.Repo, rel)] = dst
			rep.Files++
		}
	}
	for rel, content := range cfg.Extra {
		abs := filepath.Join(cfg.Repo, rel)
		if _, done := replace[abs]; done {
			continue
		}
		dst := filepath.Join(cfg.OutDir, "extra__"+strings.ReplaceAll(rel, "/", "__"))
		if err := os.WriteFile(dst, []byte(content), 0o644); err != nil {
			return "", nil, err
		}
		replace[abs] = dst
	}
	ov, _ := json.MarshalIndent(map[string]interface{}{"Replace": replace}, "", " ")
	ovPath := filepath.Join(cfg.OutDir, "overlay.json")
	if err := os.WriteFile(ovPath, ov, 0o644); err != nil {
		return "", nil, err
	}
	return ovPath, rep, nil
}

func rewriteFile(rel string, src []byte, rep *Report) ([]byte, int, error) {
	fset := token.NewFileSet()
	f, err := parser.ParseFile(fset, rel, src, parser.ParseComments)
	if err != nil {
		return nil, 0, err
	}
	n := 0
	pkgDir := filepath.Dir(rel)
	needImports := map[string]string{} // path -> name
	// 1. import rewrites
	timeName := ""
	for _, imp := range f.Imports {
		p, _ := strconv.Unquote(imp.Path.Value)
		switch p {
		case "sync":
			imp.Path.Value = strconv.Quote(shimSync)
			if imp.Name == nil {
				imp.Name = ast.NewIdent("sync")
			}
			n++
			rep.Rewrites["import sync"]++
		case realKeyMu:
			imp.Path.Value = strconv.Quote(shimKeyMu)
			if imp.Name == nil {
				imp.Name = ast.NewIdent("keymutex")
			}
			n++
			rep.Rewrites["import keymutex"]++
		case realWait:
			imp.Path.Value = strconv.Quote(shimWait)
			if imp.Name == nil {
				imp.Name = ast.NewIdent("wait")
			}
			n++
			rep.Rewrites["import wait"]++
		case "time":
			timeName = "time"
			if imp.Name != nil {
				timeName = imp.Name.Name
			}
		}
	}
	// 2. time.Now() -> vtime.Now() (floatingip package only: UpdatedAt ordering)
	if strings.HasSuffix(pkgDir, "pkg/ipam/floatingip") && timeName != "" {
		ast.Inspect(f, func(nd ast.Node) bool {
			call, ok := nd.(*ast.CallExpr)
			if !ok {
				return true
			}
			sel, ok := call.Fun.(*ast.SelectorExpr)
			if !ok {
				return true
			}
			if id, ok := sel.X.(*ast.Ident); ok && id.Name == timeName && sel.Sel.Name == "Now" && len(call.Args) == 0 {
				id.Name = "vtime"
				needImports[shimTime] = "vtime"
				n++
				rep.Rewrites["time.Now"]++
			}
			return true
		})
	}
	if timeName != "" {
		used := false
		ast.Inspect(f, func(nd ast.Node) bool {
			if sel, ok := nd.(*ast.SelectorExpr); ok {
				if id, ok := sel.X.(*ast.Ident); ok && id.Name == timeName {
					used = true
				}
			}
			return true
		})
		if !used {
			for _, imp := range f.Imports {
				if p, _ := strconv.Unquote(imp.Path.Value); p == "time" {
					imp.Name = ast.NewIdent("_")
				}
			}
		}
	}
	// 3. UnsortedList -> List
	ast.Inspect(f, func(nd ast.Node) bool {
		if sel, ok := nd.(*ast.SelectorExpr); ok && sel.Sel.Name == "UnsortedList" {
			sel.Sel.Name = "List"
			n++
			rep.Rewrites["UnsortedList"]++
		}
		return true
	})
	// 4. map ranges
	for _, d := range f.Decls {
		fd, ok := d.(*ast.FuncDecl)
		if !ok || fd.Body == nil {
			continue
		}
		fn := "SortedKeys"
		if rotFuncs[fd.Name.Name] {
			fn = "Keys"
		}
		cnt := 0
		ast.Inspect(fd.Body, func(nd ast.Node) bool {
			rs, ok := nd.(*ast.RangeStmt)
			if !ok || rs.Tok != token.DEFINE || rs.Key == nil {
				return true
			}
			xs := types.ExprString(rs.X)
			if !mapExprs[xs] {
				return true
			}
			cnt++
			keyId, _ := rs.Key.(*ast.Ident)
			if keyId == nil {
				return true
			}
			kname := keyId.Name
			if kname == "_" {
				kname = fmt.Sprintf("vk__%d", cnt)
			}
			var pre []ast.Stmt
			if rs.Value != nil {
				if vid, ok := rs.Value.(*ast.Ident); ok && vid.Name != "_" {
					okName := fmt.Sprintf("vok__%d", cnt)
					pre = append(pre,
						&ast.AssignStmt{
							Lhs: []ast.Expr{ast.NewIdent(vid.Name), ast.NewIdent(okName)},
							Tok: token.DEFINE,
							Rhs: []ast.Expr{&ast.IndexExpr{X: rs.X, Index: ast.NewIdent(kname)}},
						},
						&ast.IfStmt{
							Cond: &ast.UnaryExpr{Op: token.NOT, X: ast.NewIdent(okName)},
							Body: &ast.BlockStmt{List: []ast.Stmt{&ast.BranchStmt{Tok: token.CONTINUE}}},
						},
						&ast.AssignStmt{Lhs: []ast.Expr{ast.NewIdent("_")}, Tok: token.ASSIGN, Rhs: []ast.Expr{ast.NewIdent(vid.Name)}},
					)
				}
			}
			if keyId.Name != "_" {
				pre = append(pre, &ast.AssignStmt{Lhs: []ast.Expr{ast.NewIdent("_")}, Tok: token.ASSIGN, Rhs: []ast.Expr{ast.NewIdent(kname)}})
			}
			rs.Body.List = append(pre, rs.Body.List...)
			rs.Key = ast.NewIdent("_")
			rs.Value = ast.NewIdent(kname)
			rs.X = &ast.CallExpr{
				Fun:  &ast.SelectorExpr{X: ast.NewIdent("vmap"), Sel: ast.NewIdent(fn)},
				Args: []ast.Expr{rs.X},
			}
			needImports[shimMap] = "vmap"
			n++
			rep.Rewrites["maprange "+fn]++
			return true
		})
	}
	// add imports
	for p, name := range needImports {
		addImport(f, name, p)
	}
	var buf bytes.Buffer
	if err := format.Node(&buf, fset, f); err != nil {
		return nil, 0, err
	}
	return buf.Bytes(), n, nil
}

func addImport(f *ast.File, name, path string) {
	spec := &ast.ImportSpec{Name: ast.NewIdent(name), Path: &ast.BasicLit{Kind: token.STRING, Value: strconv.Quote(path)}}
	for _, d := range f.Decls {
		if gd, ok := d.(*ast.GenDecl); ok && gd.Tok == token.IMPORT {
			gd.Specs = append(gd.Specs, spec)
			if !gd.Lparen.IsValid() {
				gd.Lparen = gd.Pos()
				gd.Rparen = gd.End()
			}
			f.Imports = append(f.Imports, spec)
			return
		}
	}
	gd := &ast.GenDecl{Tok: token.IMPORT, Specs: []ast.Spec{spec}}
	f.Decls = append([]ast.Decl{gd}, f.Decls...)
	f.Imports = append(f.Imports, spec)
}
