// Package world closes the galaxy-ipam system: an API-server truth, informer caches (listers over
// indexers we own), an event queue, a recording cloud provider, restart/crash, and the operations of
// kube-scheduler, controllers, administrators and informers as explicit transitions.
package world

import (
	"bytes"
	gocontext "context"
	"encoding/json"
	"flag"
	"fmt"
	"io"
	"net"
	"net/http"
	"net/http/httptest"
	"sort"
	"strings"
	"sync"

	"github.com/emicklei/go-restful"
	appsv1 "k8s.io/api/apps/v1"
	corev1 "k8s.io/api/core/v1"
	extv1 "k8s.io/apiextensions-apiserver/pkg/apis/apiextensions/v1"
	extfake "k8s.io/apiextensions-apiserver/pkg/client/clientset/clientset/fake"
	extlisters "k8s.io/apiextensions-apiserver/pkg/client/listers/apiextensions/v1"
	apierrors "k8s.io/apimachinery/pkg/api/errors"
	"k8s.io/apimachinery/pkg/api/resource"
	metav1 "k8s.io/apimachinery/pkg/apis/meta/v1"
	"k8s.io/apimachinery/pkg/runtime"
	"k8s.io/apimachinery/pkg/runtime/schema"
	"k8s.io/apimachinery/pkg/types"
	dynfake "k8s.io/client-go/dynamic/fake"
	kubefake "k8s.io/client-go/kubernetes/fake"
	corev1client "k8s.io/client-go/kubernetes/typed/core/v1"
	appslisters "k8s.io/client-go/listers/apps/v1"
	corelisters "k8s.io/client-go/listers/core/v1"
	"k8s.io/client-go/tools/cache"
	glog "k8s.io/klog"

	"tkestack.io/galaxy/pkg/api/galaxy/constant"
	"tkestack.io/galaxy/pkg/api/k8s/schedulerapi"
	"tkestack.io/galaxy/pkg/ipam/api"
	"tkestack.io/galaxy/pkg/ipam/apis/galaxy/v1alpha1"
	galaxyfake "tkestack.io/galaxy/pkg/ipam/client/clientset/versioned/fake"
	galaxyv1 "tkestack.io/galaxy/pkg/ipam/client/clientset/versioned/typed/galaxy/v1alpha1"
	galaxyinformer "tkestack.io/galaxy/pkg/ipam/client/informers/externalversions/galaxy/v1alpha1"
	galaxylisters "tkestack.io/galaxy/pkg/ipam/client/listers/galaxy/v1alpha1"
	"tkestack.io/galaxy/pkg/ipam/cloudprovider/rpc"
	ipamctx "tkestack.io/galaxy/pkg/ipam/context"
	"tkestack.io/galaxy/pkg/ipam/schedulerplugin"

	"verif.local/mc/coop"
	"verif.local/mc/coop/vtime"
)

func init() {
	fs := flag.NewFlagSet("klog", flag.ContinueOnError)
	glog.InitFlags(fs)
	_ = fs.Set("logtostderr", "false")
	_ = fs.Set("alsologtostderr", "false")
	_ = fs.Set("stderrthreshold", "FATAL")
	glog.SetOutput(io.Discard)
}

// NodeSpec is a cluster node.
type NodeSpec struct{ Name, IP string }

// Config is the static part of a world.
type Config struct {
	Pools string // floatingip configuration (JSON array), stored in the floatingip-config ConfigMap
	Nodes []NodeSpec
	Cloud bool
	Lag   bool // informer caches only change through SyncCache transitions
}

// PodSpec describes a pod identity (without UID).
type PodSpec struct {
	Name, NS  string
	OwnerKind string // "", StatefulSet, ReplicaSet, TApp, Job ...
	OwnerName string
	Policy    string // "", immutable, never
	Pool      string
	Ranges    string // JSON value of request_ip_range, "" for none
}

// Key is namespace/name.
func (p PodSpec) Key() string { return p.NS + "/" + p.Name }

// Event is a pending informer delivery.
type Event struct {
	Kind string // pod-delete, pod-update, fip-add, fip-delete
	Pod  *corev1.Pod
	Old  *corev1.Pod
	FIP  *v1alpha1.FloatingIP
	Seq  int
}

func (e Event) String() string {
	switch e.Kind {
	case "pod-delete":
		return fmt.Sprintf("delete(%s uid=%s)", e.Pod.Name, e.Pod.UID)
	case "pod-update":
		return fmt.Sprintf("update(%s uid=%s %s->%s)", e.Pod.Name, e.Pod.UID, e.Old.Status.Phase, e.Pod.Status.Phase)
	}
	return e.Kind + "(" + e.FIP.Name + ")"
}

// BindRec is one successful pods/binding create.
type BindRec struct {
	PodKey string
	UID    string
	Node   string
	IPs    []string
	Infos  []constant.IPInfo
	Step   int
	Anno   string
	// CloudIdx is the number of provider calls made before this binding.
	CloudIdx int
}

// CloudCall is one provider call.
type CloudCall struct {
	Op   string // assign / unassign
	IP   string
	Node string
	OK   bool
	Step int
	By   string
}

// World is one universe.
type World struct {
	Cfg Config

	// API truth
	Pods      map[string]*corev1.Pod
	FIPs      map[string]*v1alpha1.FloatingIP
	PoolObjs  map[string]*v1alpha1.Pool
	ConfigMap string
	uidCtr    int

	// informer caches
	podIdx, nodeIdx, stsIdx, dpIdx, poolIdx, crdIdx cache.Indexer

	// pending deliveries
	Pending []Event
	evSeq   int

	Plugin   *schedulerplugin.FloatingIPPlugin
	fipStub  *fipInformerStub
	Cloud    *RecProvider
	Bindings []BindRec
	BindFail []string
	APICalls int
	APILog   []string
	Step     int
	Restarts int
	// FaultAt > 0 makes the FaultAt-th API call (counted from the last ResetFault) fail without effect.
	FaultAt    int
	// FaultFrom > 0 makes every API call from the FaultFrom-th on fail without effect (an outage that starts in mid-operation).
	FaultFrom int
	faultCount int
	// CrashAt > 0: the process dies right before (CrashAfter=false) or right after (true) the CrashAt-th API call.
	CrashAt      int
	CrashAfter   bool
	Crashed      bool
	crashPending bool
	// DeletedFIPs logs store deletes/re-keys for culprit attribution: "step op ip oldkey->newkey by thread"
	StoreLog []string
	// AssignOwner / CloudSeen are scratch state of the C10 oracle (owner key of an IP when it was assigned).
	AssignOwner map[string]string
	CloudSeen   int
	// Configs / ReloadDone / MustKeep are scratch state of the C09 oracle.
	Configs    []string
	ReloadDone bool
	MustKeep   map[string]string
	// OpBound / LastPoolCount are scratch state of the C07 oracle.
	OpBound       map[string]int
	LastPoolCount int
	// Free: the world is used by free-running goroutines (race-detector pass): its own bookkeeping is guarded by mu. Under the
	// cooperative scheduler (one goroutine at a time, yields inside API calls) the mutex must not be used.
	Free bool
	mu   sync.Mutex
	// Deleted: the last deleted incarnation of each pod key, as it was.
	Deleted map[string]*corev1.Pod
	// AdminReserved: the addresses an administrator has reserved (Reserve) and not given back (Unreserve).
	AdminReserved map[string]bool
	// LoseBindResponse: the next pods/binding call is applied but answered with a time-out.
	LoseBindResponse bool
	// TwoInstances is set by scenarios in which an old galaxy-ipam instance finishes a request while a new one has started:
	// the tables MemDump reads are the new instance's, which cannot know what the old one committed after its start-up list.
	TwoInstances bool
	// Aux is scratch space for harnesses (e.g. the observation log of a history).
	Aux []interface{}
	// Writers is the set of threads that performed store writes, bindings or provider calls.
	Writers map[string]bool

	kube   *kubeClient
	galaxy *galaxyClient
	restc  *restful.Container
}

var (
	embedKube   = kubefake.NewSimpleClientset()
	embedGalaxy = galaxyfake.NewSimpleClientset()
	embedExt    = extfake.NewSimpleClientset()
)

// New builds a world (truth, caches, clients). Call Start to create the plugin.
func New(cfg Config) *World {
	vtime.Reset()
	w := &World{Cfg: cfg, Pods: map[string]*corev1.Pod{}, FIPs: map[string]*v1alpha1.FloatingIP{}, PoolObjs: map[string]*v1alpha1.Pool{}}
	idx := func() cache.Indexer {
		return cache.NewIndexer(cache.MetaNamespaceKeyFunc, cache.Indexers{cache.NamespaceIndex: cache.MetaNamespaceIndexFunc})
	}
	w.podIdx, w.nodeIdx, w.stsIdx, w.dpIdx, w.poolIdx, w.crdIdx = idx(), idx(), idx(), idx(), idx(), idx()
	w.ConfigMap = cfg.Pools
	for _, n := range cfg.Nodes {
		_ = w.nodeIdx.Add(w.nodeObj(n))
	}
	w.kube = &kubeClient{Clientset: embedKube, w: w}
	w.galaxy = &galaxyClient{Clientset: embedGalaxy, w: w}
	if cfg.Cloud {
		w.Cloud = &RecProvider{w: w, Assigned: map[string]string{}}
	}
	return w
}

func (w *World) nodeObj(n NodeSpec) *corev1.Node {
	return &corev1.Node{ObjectMeta: metav1.ObjectMeta{Name: n.Name},
		Status: corev1.NodeStatus{Addresses: []corev1.NodeAddress{{Type: corev1.NodeInternalIP, Address: n.IP}}}}
}

// Nodes returns all node objects.
func (w *World) Nodes() []corev1.Node {
	var out []corev1.Node
	for _, n := range w.Cfg.Nodes {
		out = append(out, *w.nodeObj(n))
	}
	return out
}

// Start creates a plugin over the current truth and runs Init (start-up and restart).
func (w *World) Start() error {
	ctx := &ipamctx.IPAMContext{
		Client:            w.kube,
		GalaxyClient:      w.galaxy,
		ExtClient:         embedExt,
		DynamicClient:     dynfake.NewSimpleDynamicClientWithCustomListKinds(runtime.NewScheme(), dynListKinds),
		PodLister:         corelisters.NewPodLister(w.podIdx),
		NodeLister:        corelisters.NewNodeLister(w.nodeIdx),
		StatefulSetLister: appslisters.NewStatefulSetLister(w.stsIdx),
		DeploymentLister:  appslisters.NewDeploymentLister(w.dpIdx),
		PoolLister:        galaxylisters.NewPoolLister(w.poolIdx),
		ExtensionLister:   extlisters.NewCustomResourceDefinitionLister(w.crdIdx),
	}
	w.fipStub = &fipInformerStub{}
	ctx.FIPInformer = w.fipStub
	p, err := schedulerplugin.NewFloatingIPPlugin(schedulerplugin.Conf{}, ctx)
	if err != nil {
		return err
	}
	if w.Cloud != nil {
		p.VerifSetCloudProvider(w.Cloud)
	}
	w.Plugin = p
	w.restc = nil
	return p.Init()
}

// Restart models a process restart: new plugin over the same API truth; undelivered pod events are lost.
func (w *World) Restart() error {
	w.Restarts++
	w.Crashed, w.crashPending, w.CrashAt, w.FaultAt = false, false, 0, 0
	var keep []Event
	w.Pending = keep
	return w.Start()
}

// ---------------------------------------------------------------------------------------------
// truth mutations (controllers, kubelet, administrator)

func (w *World) newPod(s PodSpec) *corev1.Pod {
	w.uidCtr++
	q := resource.NewQuantity(1, resource.DecimalSI)
	pod := &corev1.Pod{
		ObjectMeta: metav1.ObjectMeta{Name: s.Name, Namespace: s.NS, UID: types.UID(fmt.Sprintf("u%d", w.uidCtr)),
			Annotations: map[string]string{}},
		Spec: corev1.PodSpec{Containers: []corev1.Container{{Resources: corev1.ResourceRequirements{
			Requests: corev1.ResourceList{corev1.ResourceName(constant.ResourceName): *q}}}}},
		Status: corev1.PodStatus{Phase: corev1.PodPending},
	}
	if s.OwnerKind != "" {
		pod.OwnerReferences = []metav1.OwnerReference{{Kind: s.OwnerKind, Name: s.OwnerName}}
	}
	if s.Policy != "" {
		pod.Annotations[constant.ReleasePolicyAnnotation] = s.Policy
	}
	if s.Pool != "" {
		pod.Annotations[constant.IPPoolAnnotation] = s.Pool
	}
	if s.Ranges != "" {
		pod.Annotations[constant.ExtendedCNIArgsAnnotation] = `{"request_ip_range":` + s.Ranges + `}`
	}
	return pod
}

// CreatePod adds a new incarnation (fresh UID) of the pod to the truth.
func (w *World) CreatePod(s PodSpec) *corev1.Pod {
	pod := w.newPod(s)
	w.Pods[s.Key()] = pod
	if !w.Cfg.Lag {
		_ = w.podIdx.Add(pod.DeepCopy())
	}
	w.refreshDpStatus()
	return pod
}

// AddRawPod adds an arbitrary pod object (C18 inputs).
func (w *World) AddRawPod(pod *corev1.Pod) {
	w.Pods[pod.Namespace+"/"+pod.Name] = pod
	_ = w.podIdx.Add(pod.DeepCopy())
}

// DeletePod removes the pod from the truth and queues the informer's delete event.
func (w *World) DeletePod(key string) {
	pod := w.Pods[key]
	if pod == nil {
		return
	}
	delete(w.Pods, key)
	if w.Deleted == nil {
		w.Deleted = map[string]*corev1.Pod{}
	}
	w.Deleted[key] = pod.DeepCopy()
	if !w.Cfg.Lag {
		_ = w.podIdx.Delete(pod)
	}
	w.evSeq++
	w.Pending = append(w.Pending, Event{Kind: "pod-delete", Pod: pod.DeepCopy(), Seq: w.evSeq})
	w.refreshDpStatus()
}

// StaleSyncPodIP plays the part of the periodic pod-IP sync routine reaching the entry of a pod in a list it took while the pod
// still existed and was running: the last deleted incarnation of key, as it was, is handed to the sync (through the pod update
// handler, which does nothing else for a running pod).
func (w *World) StaleSyncPodIP(key string) bool {
	old := w.Deleted[key]
	if old == nil || old.Spec.NodeName == "" {
		return false
	}
	q := old.DeepCopy()
	q.Status.Phase = corev1.PodRunning
	_ = w.Plugin.UpdatePod(q, q.DeepCopy())
	w.DrainReleaseQueue()
	return true
}

// SetPhase changes the pod phase in the truth and queues the update event.
func (w *World) SetPhase(key string, phase corev1.PodPhase) {
	pod := w.Pods[key]
	if pod == nil || pod.Status.Phase == phase {
		return
	}
	old := pod.DeepCopy()
	pod.Status.Phase = phase
	if !w.Cfg.Lag {
		_ = w.podIdx.Update(pod.DeepCopy())
	}
	w.evSeq++
	w.Pending = append(w.Pending, Event{Kind: "pod-update", Pod: pod.DeepCopy(), Old: old, Seq: w.evSeq})
	w.refreshDpStatus()
}

// SyncPodCache makes the informer cache of one pod equal to the truth (lag mode).
func (w *World) SyncPodCache(key string) {
	pod := w.Pods[key]
	parts := strings.SplitN(key, "/", 2)
	if pod == nil {
		if obj, ok, _ := w.podIdx.GetByKey(key); ok {
			_ = w.podIdx.Delete(obj)
		}
		_ = parts
		return
	}
	_ = w.podIdx.Update(pod.DeepCopy())
}

// CachedPodUID returns the UID of the pod as the lister sees it ("" if absent).
func (w *World) CachedPodUID(key string) string {
	if obj, ok, _ := w.podIdx.GetByKey(key); ok {
		return string(obj.(*corev1.Pod).UID)
	}
	return ""
}

// SetStatefulSet creates/updates (replicas>=0) or deletes (replicas<0) a statefulset.
func (w *World) SetStatefulSet(ns, name string, replicas int) {
	obj := &appsv1.StatefulSet{ObjectMeta: metav1.ObjectMeta{Name: name, Namespace: ns}}
	if replicas < 0 {
		_ = w.stsIdx.Delete(obj)
		return
	}
	r := int32(replicas)
	obj.Spec.Replicas = &r
	_ = w.stsIdx.Update(obj)
}

// SetDeployment creates/updates (replicas>=0) or deletes (replicas<0) a deployment.
func (w *World) SetDeployment(ns, name string, replicas int) {
	obj := &appsv1.Deployment{ObjectMeta: metav1.ObjectMeta{Name: name, Namespace: ns}}
	if replicas < 0 {
		_ = w.dpIdx.Delete(obj)
		return
	}
	r := int32(replicas)
	obj.Spec.Replicas = &r
	_ = w.dpIdx.Update(obj)
	w.refreshDpStatus()
}

// refreshDpStatus: status.replicas of every deployment = its pods that exist and have not finished (what the deployment
// controller reports; during a rolling update with surge it exceeds spec.replicas).
func (w *World) refreshDpStatus() {
	for _, o := range w.dpIdx.List() {
		dp := o.(*appsv1.Deployment)
		n := int32(0)
		for key, p := range w.Pods {
			if !w.Alive(key) || p.Namespace != dp.Namespace {
				continue
			}
			for _, ref := range p.OwnerReferences {
				if ref.Kind == "ReplicaSet" && strings.HasPrefix(ref.Name, dp.Name+"-") {
					n++
				}
			}
		}
		if dp.Status.Replicas != n {
			c := dp.DeepCopy()
			c.Status.Replicas = n
			_ = w.dpIdx.Update(c)
		}
	}
}

// Replicas returns the replicas of a workload as the lister sees it, -1 if absent.
func (w *World) Replicas(kind, ns, name string) int {
	switch kind {
	case "StatefulSet":
		if o, ok, _ := w.stsIdx.GetByKey(ns + "/" + name); ok {
			return int(*o.(*appsv1.StatefulSet).Spec.Replicas)
		}
	case "ReplicaSet", "Deployment":
		if o, ok, _ := w.dpIdx.GetByKey(ns + "/" + name); ok {
			return int(*o.(*appsv1.Deployment).Spec.Replicas)
		}
	}
	return -1
}

// SetPoolObj creates/updates a Pool object directly in truth and cache (size<0 deletes).
func (w *World) SetPoolObj(name string, size int) {
	if size < 0 {
		delete(w.PoolObjs, name)
		_ = w.poolIdx.Delete(&v1alpha1.Pool{ObjectMeta: metav1.ObjectMeta{Name: name, Namespace: "kube-system"}})
		return
	}
	p := &v1alpha1.Pool{ObjectMeta: metav1.ObjectMeta{Name: name, Namespace: "kube-system"}, Size: size}
	w.PoolObjs[name] = p
	_ = w.poolIdx.Update(p.DeepCopy())
}

// dynListKinds: the custom resources the harnesses use, for the fake dynamic client (which refuses to LIST anything else).
var dynListKinds = map[schema.GroupVersionResource]string{
	{Group: "apps.tkestack.io", Version: "v1", Resource: "tapps"}:       "TAppList",
	{Group: "apps.tkestack.io", Version: "v1alpha1", Resource: "tapps"}: "TAppList",
	{Group: "apps.tkestack.io", Version: "v1", Resource: "tjobs"}:       "TJobList",
	{Group: "apps.tkestack.io", Version: "v1alpha1", Resource: "tjobs"}: "TJobList",
}

// AddCRD puts a CustomResourceDefinition with a scale subresource into the extension informer cache (a TApp-like workload kind).
func (w *World) AddCRD(kind, group, version, plural string) {
	c := &extv1.CustomResourceDefinition{ObjectMeta: metav1.ObjectMeta{Name: plural + "." + group},
		Spec: extv1.CustomResourceDefinitionSpec{Group: group, Names: extv1.CustomResourceDefinitionNames{Kind: kind, Plural: plural},
			Versions: []extv1.CustomResourceDefinitionVersion{{Name: version, Served: true, Storage: true,
				Subresources: &extv1.CustomResourceSubresources{Scale: &extv1.CustomResourceSubresourceScale{SpecReplicasPath: ".spec.replicas", StatusReplicasPath: ".status.replicas"}}}}}}
	_ = w.crdIdx.Update(c)
}

// Reserve creates a labelled FloatingIP object (administrator) and queues the watch event.
func (w *World) Reserve(ip string) error {
	defer w.freeLock()()
	if _, ok := w.FIPs[ip]; ok {
		return fmt.Errorf("exists")
	}
	f := &v1alpha1.FloatingIP{TypeMeta: metav1.TypeMeta{Kind: constant.ResourceKind, APIVersion: constant.ApiVersion},
		ObjectMeta: metav1.ObjectMeta{Name: ip, Labels: map[string]string{constant.ReserveFIPLabel: ""}},
		Spec:       v1alpha1.FloatingIPSpec{Key: "admin-reserved", Policy: constant.ReleasePolicyNever}}
	w.FIPs[ip] = f
	if w.AdminReserved == nil {
		w.AdminReserved = map[string]bool{}
	}
	w.AdminReserved[ip] = true
	w.evSeq++
	w.Pending = append(w.Pending, Event{Kind: "fip-add", FIP: f.DeepCopy(), Seq: w.evSeq})
	return nil
}

// Unreserve deletes a labelled FloatingIP object and queues the watch event.
func (w *World) Unreserve(ip string) error {
	defer w.freeLock()()
	f, ok := w.FIPs[ip]
	if !ok {
		return fmt.Errorf("absent")
	}
	if _, lab := f.Labels[constant.ReserveFIPLabel]; !lab {
		return fmt.Errorf("not a reservation")
	}
	delete(w.FIPs, ip)
	delete(w.AdminReserved, ip)
	w.evSeq++
	w.Pending = append(w.Pending, Event{Kind: "fip-delete", FIP: f.DeepCopy(), Seq: w.evSeq})
	return nil
}

// ---------------------------------------------------------------------------------------------
// galaxy entry points (each may be run as a managed thread)

// Filter calls the plugin's Filter with the scheduler's current view of the pod and all nodes.
func (w *World) Filter(key string) ([]string, error) {
	unlock := w.freeLock()
	pod := w.Pods[key]
	if pod == nil {
		unlock()
		return nil, fmt.Errorf("no pod %s", key)
	}
	pod = pod.DeepCopy()
	unlock()
	nodes, _, err := w.Plugin.Filter(pod, w.Nodes())
	var names []string
	for _, n := range nodes {
		names = append(names, n.Name)
	}
	return names, err
}

// FilterPod calls Filter with the given pod object.
func (w *World) FilterPod(pod *corev1.Pod) ([]string, error) {
	nodes, _, err := w.Plugin.Filter(pod, w.Nodes())
	var names []string
	for _, n := range nodes {
		names = append(names, n.Name)
	}
	return names, err
}

// Bind calls the plugin's Bind as kube-scheduler would for the incarnation with the given uid.
func (w *World) Bind(ns, name, uid, node string) error {
	err := w.Plugin.Bind(&schedulerapi.ExtenderBindingArgs{PodName: name, PodNamespace: ns, PodUID: types.UID(uid), Node: node})
	// Bind may queue a release event for the pod (the pod vanished while it was being bound); the release loop handles it
	w.DrainReleaseQueue()
	return err
}

// Schedule = Filter; pick a node (environment choice "node"); Bind. Returns the bound node or "".
func (w *World) Schedule(key string) (string, error) {
	pod := w.Pods[key]
	if pod == nil {
		return "", fmt.Errorf("no pod %s", key)
	}
	uid := string(pod.UID)
	nodes, err := w.Filter(key)
	if err != nil {
		return "", err
	}
	if len(nodes) == 0 {
		return "", fmt.Errorf("unschedulable")
	}
	n := nodes[coop.Choose("node", len(nodes))]
	coop.Point("sched", "between filter and bind "+key)
	if err := w.Bind(pod.Namespace, pod.Name, uid, n); err != nil {
		return "", err
	}
	return n, nil
}

// Deliver hands pending event i to the plugin's handlers, then plays the part of loop(): pops the
// queued release events and runs unbind with up to 3 retries.
func (w *World) Deliver(i int) []error {
	unlock := w.freeLock()
	if i < 0 || i >= len(w.Pending) {
		unlock()
		return nil
	}
	ev := w.Pending[i]
	w.Pending = append(append([]Event{}, w.Pending[:i]...), w.Pending[i+1:]...)
	unlock()
	return w.DeliverEvent(ev)
}

// DeliverEvent delivers the given event object.
func (w *World) DeliverEvent(ev Event) []error {
	var errs []error
	switch ev.Kind {
	case "pod-delete":
		_ = w.Plugin.DeletePod(ev.Pod)
	case "pod-update":
		_ = w.Plugin.UpdatePod(ev.Old, ev.Pod)
	case "fip-add":
		if w.fipStub != nil && w.fipStub.h != nil {
			w.fipStub.h.OnAdd(ev.FIP)
		}
	case "fip-delete":
		if w.fipStub != nil && w.fipStub.h != nil {
			w.fipStub.h.OnDelete(ev.FIP)
		}
	}
	return append(errs, w.DrainReleaseQueue()...)
}

// DrainReleaseQueue plays loop(): each queued release event is handed to the goroutine body of loop() itself (exported
// from the working tree by the overlay, instr/gobody.go: unbind, count the retry, re-queue up to 3 times); a re-queued
// event is handled again after a scheduling point, which stands for the back-off sleep.
func (w *World) DrainReleaseQueue() []error {
	var errs []error
	seen := map[interface{}]int{}
	for {
		ev, ok := w.Plugin.VerifPopRelease()
		if !ok {
			return errs
		}
		if seen[ev] > 0 {
			errs = append(errs, fmt.Errorf("unbind of %s failed (attempt %d)", schedulerplugin.VerifReleasePod(ev), seen[ev]))
			coop.Point("retry", "unbind "+schedulerplugin.VerifReleasePod(ev))
		}
		seen[ev]++
		w.Plugin.VerifLoopBody(ev)
	}
}

// Resync runs one resync pass followed by the pod-IP sync, like the periodic routine.
func (w *World) Resync() error {
	err := w.Plugin.VerifResyncPod()
	return err
}

// Tick runs the periodic routine of Run() itself (its function literal, exported from the working tree by the overlay:
// resync, then the pod-IP sync).
func (w *World) Tick() { w.Plugin.VerifRunTick() }

// SyncPodIPs runs the pod-IP sync pass.
func (w *World) SyncPodIPs() { w.Plugin.VerifSyncPodIPs() }

// Reload re-reads the ConfigMap through the plugin's own Init path.
func (w *World) Reload() error { return w.Plugin.Init() }

func (w *World) container() *restful.Container {
	if w.restc != nil {
		return w.restc
	}
	c := restful.NewContainer()
	c.DoNotRecover(true)
	ws := new(restful.WebService)
	ws.Path("/v1").Consumes(restful.MIME_JSON).Produces(restful.MIME_JSON)
	ctl := api.NewController(w.Plugin.GetIpam(), w.Plugin.PodLister, w.Plugin.Release)
	ws.Route(ws.GET("/ip").To(ctl.ListIPs))
	ws.Route(ws.POST("/ip").To(ctl.ReleaseIPs))
	pc := api.PoolController{PoolLister: w.Plugin.PoolLister, Client: w.Plugin.GalaxyClient, LockPoolFunc: w.Plugin.LockDpPool,
		IPAM: w.Plugin.GetIpam()}
	ws.Route(ws.GET("/pool/{name}").To(pc.Get))
	ws.Route(ws.POST("/pool").To(pc.CreateOrUpdate))
	ws.Route(ws.DELETE("/pool/{name}").To(pc.Delete))
	c.Add(ws)
	w.restc = c
	return c
}

// HTTP drives the real API controllers through a restful container.
func (w *World) HTTP(method, path string, body interface{}) (int, []byte) {
	var rd io.Reader
	if body != nil {
		switch b := body.(type) {
		case string:
			rd = strings.NewReader(b)
		case []byte:
			rd = bytes.NewReader(b)
		default:
			data, _ := json.Marshal(body)
			rd = bytes.NewReader(data)
		}
	}
	req := httptest.NewRequest(method, path, rd)
	req.Header.Set("Content-Type", "application/json")
	req.Header.Set("Accept", "application/json")
	rec := httptest.NewRecorder()
	w.container().ServeHTTP(rec, req)
	return rec.Code, rec.Body.Bytes()
}

// APIRelease posts entries to /v1/ip.
func (w *World) APIRelease(entries []api.FloatingIP) (int, api.ReleaseIPResp) {
	code, body := w.HTTP(http.MethodPost, "/v1/ip", api.ReleaseIPReq{IPs: entries})
	var resp api.ReleaseIPResp
	_ = json.Unmarshal(body, &resp)
	return code, resp
}

// APIList GETs /v1/ip?query.
func (w *World) APIList(query string) (int, api.ListIPResp) {
	code, body := w.HTTP(http.MethodGet, "/v1/ip?"+query, nil)
	var resp api.ListIPResp
	_ = json.Unmarshal(body, &resp)
	return code, resp
}

// PoolPost posts to /v1/pool.
func (w *World) PoolPost(name string, size int, prealloc bool) (int, []byte) {
	return w.HTTP(http.MethodPost, "/v1/pool", api.Pool{Name: name, Size: size, PreAllocateIP: prealloc})
}

// ---------------------------------------------------------------------------------------------
// observation

// IPState is the canonical per-IP state.
type IPState struct {
	IP       string
	Alloc    bool
	Key      string
	Policy   uint16
	Node     string
	UID      string
	Reserved bool
	Updated  int64
	// PoolDesc describes the pool the in-memory entry points to: "mask gateway vlan [node subnets]" (memory dump only).
	PoolDesc string
}

func (s IPState) String() string {
	if !s.Alloc {
		return s.IP + ":free"
	}
	r := ""
	if s.Reserved {
		r = " R"
	}
	return fmt.Sprintf("%s:%s p%d n=%s u=%s%s", s.IP, s.Key, s.Policy, s.Node, s.UID, r)
}

// MemDump dumps the in-memory tables through ByPrefix("").
func (w *World) MemDump() []IPState {
	all, _ := w.Plugin.GetIpam().ByPrefix("")
	out := make([]IPState, 0, len(all))
	for _, f := range all {
		_, res := f.Labels[constant.ReserveFIPLabel]
		desc := ""
		if f.IPInfo.IP != nil {
			desc = fmt.Sprintf("%s %s %d %v", net.IP(f.IPInfo.IP.Mask).String(), f.IPInfo.Gateway.String(), f.IPInfo.Vlan, f.NodeSubnets.List())
		}
		out = append(out, IPState{IP: f.IP.String(), Alloc: f.Key != "" || res, Key: f.Key, Policy: f.Policy, Node: f.NodeName,
			UID: f.PodUid, Reserved: res, Updated: f.UpdatedAt.UnixNano(), PoolDesc: desc})
	}
	sort.Slice(out, func(i, j int) bool { return out[i].IP < out[j].IP })
	return out
}

// StoreDump dumps the FloatingIP objects.
func (w *World) StoreDump() []IPState {
	out := make([]IPState, 0, len(w.FIPs))
	for name, f := range w.FIPs {
		var a struct{ NodeName, Uid string }
		if f.Spec.Attribute != "" {
			_ = json.Unmarshal([]byte(f.Spec.Attribute), &a)
		}
		_, res := f.Labels[constant.ReserveFIPLabel]
		out = append(out, IPState{IP: name, Alloc: true, Key: f.Spec.Key, Policy: uint16(f.Spec.Policy), Node: a.NodeName, UID: a.Uid,
			Reserved: res, Updated: f.Spec.UpdateTime.UnixNano()})
	}
	sort.Slice(out, func(i, j int) bool { return out[i].IP < out[j].IP })
	return out
}

// Alive reports whether the pod exists in the truth and has not finished.
func (w *World) Alive(key string) bool {
	p := w.Pods[key]
	return p != nil && p.Status.Phase != corev1.PodSucceeded && p.Status.Phase != corev1.PodFailed
}

// ---------------------------------------------------------------------------------------------
// API clients

// afterCall runs when an API call returns: crash-after-the-call injection.
// freeLock guards the world's own bookkeeping in Free mode.
func (w *World) freeLock() func() {
	if !w.Free {
		return func() {}
	}
	w.mu.Lock()
	return w.mu.Unlock
}

func (w *World) afterCall() {
	if w.Free {
		defer w.mu.Unlock()
	}
	if w.crashPending {
		w.crashPending = false
		w.Crashed = true
		panic(coop.CrashSentinel{Where: "after call"})
	}
}

func (w *World) apiCall(verb, res, name string) (err error) {
	if w.Free {
		// held until afterCall (every client method pairs the two); released here when the call fails
		w.mu.Lock()
		defer func() {
			if err != nil {
				w.mu.Unlock()
			}
		}()
	}
	if w.Crashed {
		// the process is dead: nothing (e.g. deferred clean-up during unwinding) reaches the API server any more
		panic(coop.CrashSentinel{Where: "dead"})
	}
	coop.Point("api", verb+" "+res+" "+name)
	w.APICalls++
	w.faultCount++
	if w.CrashAt > 0 && w.faultCount == w.CrashAt {
		if w.CrashAfter {
			w.APILog = append(w.APILog, "CRASH-after "+verb+" "+res+" "+name)
			w.crashPending = true
		} else {
			w.APILog = append(w.APILog, "CRASH-before "+verb+" "+res+" "+name)
			w.Crashed = true
			panic(coop.CrashSentinel{Where: "before " + verb + " " + res + " " + name})
		}
	}
	if (w.FaultAt > 0 && w.faultCount == w.FaultAt) || (w.FaultFrom > 0 && w.faultCount >= w.FaultFrom) {
		w.APILog = append(w.APILog, "FAULT "+verb+" "+res+" "+name)
		return apierrors.NewInternalError(fmt.Errorf("injected fault"))
	}
	switch coop.Choose("crash", 2) {
	case 1:
		w.APILog = append(w.APILog, "CRASH-before "+verb+" "+res+" "+name)
		coop.Crash("before " + verb + " " + res + " " + name)
	}
	if coop.Choose("fault", 2) == 1 {
		w.APILog = append(w.APILog, "FAULT "+verb+" "+res+" "+name)
		return apierrors.NewInternalError(fmt.Errorf("injected fault"))
	}
	w.APILog = append(w.APILog, verb+" "+res+" "+name)
	return nil
}

func (w *World) cloudLen() int {
	if w.Cloud == nil {
		return 0
	}
	return len(w.Cloud.Calls)
}

// ResetFault restarts the per-operation API call counter used by FaultAt.
func (w *World) ResetFault(at int) { w.FaultAt, w.FaultFrom, w.faultCount = at, 0, 0 }

// FaultCount returns API calls since the last ResetFault.
func (w *World) FaultCount() int { return w.faultCount }

func (w *World) who() string {
	if t := coop.Running(); t != nil {
		return t.Name
	}
	return "main"
}

func (w *World) wrote() {
	if t := coop.Running(); t != nil && coop.IsManaged() {
		if w.Writers == nil {
			w.Writers = map[string]bool{}
		}
		w.Writers[t.Name] = true
	}
}

type kubeClient struct {
	*kubefake.Clientset
	w *World
}

func (k *kubeClient) CoreV1() corev1client.CoreV1Interface {
	return &coreClient{CoreV1Interface: k.Clientset.CoreV1(), w: k.w}
}

type coreClient struct {
	corev1client.CoreV1Interface
	w *World
}

func (c *coreClient) Pods(ns string) corev1client.PodInterface {
	return &podClient{PodInterface: c.CoreV1Interface.Pods(ns), w: c.w, ns: ns}
}
func (c *coreClient) Nodes() corev1client.NodeInterface {
	return &nodeClient{NodeInterface: c.CoreV1Interface.Nodes(), w: c.w}
}
func (c *coreClient) ConfigMaps(ns string) corev1client.ConfigMapInterface {
	return &cmClient{ConfigMapInterface: c.CoreV1Interface.ConfigMaps(ns), w: c.w, ns: ns}
}

type podClient struct {
	corev1client.PodInterface
	w  *World
	ns string
}

var podGR = schema.GroupResource{Resource: "pods"}

func (p *podClient) Get(ctx gocontext.Context, name string, _ metav1.GetOptions) (*corev1.Pod, error) {
	if err := p.w.apiCall("get", "pods", p.ns+"/"+name); err != nil {
		return nil, err
	}
	defer p.w.afterCall()
	pod := p.w.Pods[p.ns+"/"+name]
	if pod == nil {
		return nil, apierrors.NewNotFound(podGR, name)
	}
	return pod.DeepCopy(), nil
}

func (p *podClient) Bind(ctx gocontext.Context, b *corev1.Binding, _ metav1.CreateOptions) error {
	w := p.w
	if err := w.apiCall("bind", "pods", p.ns+"/"+b.Name+"->"+b.Target.Name); err != nil {
		unlock := w.freeLock()
		w.BindFail = append(w.BindFail, b.Name+": "+err.Error())
		unlock()
		return err
	}
	defer w.afterCall()
	pod := w.Pods[p.ns+"/"+b.Name]
	if pod == nil {
		return apierrors.NewNotFound(podGR, b.Name)
	}
	if b.UID != "" && b.UID != pod.UID {
		return apierrors.NewConflict(podGR, b.Name, fmt.Errorf("uid precondition failed: %s != %s", b.UID, pod.UID))
	}
	if pod.Spec.NodeName != "" {
		return apierrors.NewConflict(podGR, b.Name, fmt.Errorf("pod is already assigned to node %q", pod.Spec.NodeName))
	}
	old := pod.DeepCopy()
	w.wrote()
	pod.Spec.NodeName = b.Target.Name
	if pod.Annotations == nil {
		pod.Annotations = map[string]string{}
	}
	for k, v := range b.Annotations {
		pod.Annotations[k] = v
	}
	rec := BindRec{PodKey: p.ns + "/" + b.Name, UID: string(pod.UID), Node: b.Target.Name, Step: w.Step, CloudIdx: w.cloudLen(), Anno: b.Annotations[constant.ExtendedCNIArgsAnnotation]}
	if a, err := constant.UnmarshalCniArgs(rec.Anno); err == nil && a != nil {
		for _, info := range a.Common.IPInfos {
			if info.IP != nil {
				rec.IPs = append(rec.IPs, info.IP.IP.String())
			}
		}
		rec.Infos = a.Common.IPInfos
	}
	w.Bindings = append(w.Bindings, rec)
	if !w.Cfg.Lag {
		_ = w.podIdx.Update(pod.DeepCopy())
	}
	_ = old
	// the binding is applied, its response may get lost (time-out): environment choice "lostresp", or LoseBindResponse
	if w.LoseBindResponse || coop.Choose("lostresp", 2) == 1 {
		w.LoseBindResponse = false
		w.APILog = append(w.APILog, "LOST-RESPONSE bind pods "+p.ns+"/"+b.Name)
		return apierrors.NewTimeoutError("the response of the binding request was lost", 1)
	}
	return nil
}

type nodeClient struct {
	corev1client.NodeInterface
	w *World
}

func (n *nodeClient) Get(ctx gocontext.Context, name string, _ metav1.GetOptions) (*corev1.Node, error) {
	if err := n.w.apiCall("get", "nodes", name); err != nil {
		return nil, err
	}
	defer n.w.afterCall()
	for _, s := range n.w.Cfg.Nodes {
		if s.Name == name {
			return n.w.nodeObj(s), nil
		}
	}
	return nil, apierrors.NewNotFound(schema.GroupResource{Resource: "nodes"}, name)
}

type cmClient struct {
	corev1client.ConfigMapInterface
	w  *World
	ns string
}

func (c *cmClient) Get(ctx gocontext.Context, name string, _ metav1.GetOptions) (*corev1.ConfigMap, error) {
	if err := c.w.apiCall("get", "configmaps", name); err != nil {
		return nil, err
	}
	defer c.w.afterCall()
	return &corev1.ConfigMap{ObjectMeta: metav1.ObjectMeta{Name: name, Namespace: c.ns},
		Data: map[string]string{"floatingips": c.w.ConfigMap}}, nil
}

type galaxyClient struct {
	*galaxyfake.Clientset
	w *World
}

func (g *galaxyClient) GalaxyV1alpha1() galaxyv1.GalaxyV1alpha1Interface {
	return &galaxyV1{GalaxyV1alpha1Interface: g.Clientset.GalaxyV1alpha1(), w: g.w}
}

type galaxyV1 struct {
	galaxyv1.GalaxyV1alpha1Interface
	w *World
}

func (g *galaxyV1) FloatingIPs() galaxyv1.FloatingIPInterface {
	return &fipClient{FloatingIPInterface: g.GalaxyV1alpha1Interface.FloatingIPs(), w: g.w}
}
func (g *galaxyV1) Pools(ns string) galaxyv1.PoolInterface {
	return &poolClient{PoolInterface: g.GalaxyV1alpha1Interface.Pools(ns), w: g.w}
}

type fipClient struct {
	galaxyv1.FloatingIPInterface
	w *World
}

var fipGR = schema.GroupResource{Group: "galaxy.k8s.io", Resource: "floatingips"}

func (c *fipClient) Create(ctx gocontext.Context, f *v1alpha1.FloatingIP, _ metav1.CreateOptions) (*v1alpha1.FloatingIP, error) {
	if err := c.w.apiCall("create", "fip", f.Name+" key="+f.Spec.Key); err != nil {
		return nil, err
	}
	defer c.w.afterCall()
	if _, ok := c.w.FIPs[f.Name]; ok {
		return nil, apierrors.NewAlreadyExists(fipGR, f.Name)
	}
	c.w.wrote()
	c.w.FIPs[f.Name] = f.DeepCopy()
	c.w.StoreLog = append(c.w.StoreLog, fmt.Sprintf("create %s ->%s by %s", f.Name, f.Spec.Key, c.w.who()))
	return f.DeepCopy(), nil
}

func (c *fipClient) Update(ctx gocontext.Context, f *v1alpha1.FloatingIP, _ metav1.UpdateOptions) (*v1alpha1.FloatingIP, error) {
	if err := c.w.apiCall("update", "fip", f.Name+" key="+f.Spec.Key); err != nil {
		return nil, err
	}
	defer c.w.afterCall()
	old, ok := c.w.FIPs[f.Name]
	if !ok {
		return nil, apierrors.NewNotFound(fipGR, f.Name)
	}
	c.w.wrote()
	c.w.StoreLog = append(c.w.StoreLog, fmt.Sprintf("update %s %s->%s by %s", f.Name, old.Spec.Key, f.Spec.Key, c.w.who()))
	c.w.FIPs[f.Name] = f.DeepCopy()
	return f.DeepCopy(), nil
}

func (c *fipClient) Delete(ctx gocontext.Context, name string, _ metav1.DeleteOptions) error {
	if err := c.w.apiCall("delete", "fip", name); err != nil {
		return err
	}
	defer c.w.afterCall()
	old, ok := c.w.FIPs[name]
	if !ok {
		return apierrors.NewNotFound(fipGR, name)
	}
	c.w.wrote()
	c.w.StoreLog = append(c.w.StoreLog, fmt.Sprintf("delete %s %s-> by %s", name, old.Spec.Key, c.w.who()))
	delete(c.w.FIPs, name)
	if _, lab := old.Labels[constant.ReserveFIPLabel]; lab {
		c.w.evSeq++
		c.w.Pending = append(c.w.Pending, Event{Kind: "fip-delete", FIP: old.DeepCopy(), Seq: c.w.evSeq})
	}
	return nil
}

func (c *fipClient) Get(ctx gocontext.Context, name string, _ metav1.GetOptions) (*v1alpha1.FloatingIP, error) {
	if err := c.w.apiCall("get", "fip", name); err != nil {
		return nil, err
	}
	defer c.w.afterCall()
	f, ok := c.w.FIPs[name]
	if !ok {
		return nil, apierrors.NewNotFound(fipGR, name)
	}
	return f.DeepCopy(), nil
}

func (c *fipClient) List(ctx gocontext.Context, _ metav1.ListOptions) (*v1alpha1.FloatingIPList, error) {
	if err := c.w.apiCall("list", "fip", ""); err != nil {
		return nil, err
	}
	defer c.w.afterCall()
	l := &v1alpha1.FloatingIPList{}
	names := make([]string, 0, len(c.w.FIPs))
	for n := range c.w.FIPs {
		names = append(names, n)
	}
	sort.Strings(names)
	for _, n := range names {
		l.Items = append(l.Items, *c.w.FIPs[n].DeepCopy())
	}
	return l, nil
}

type poolClient struct {
	galaxyv1.PoolInterface
	w *World
}

var poolGR = schema.GroupResource{Group: "galaxy.k8s.io", Resource: "pools"}

func (c *poolClient) Get(ctx gocontext.Context, name string, _ metav1.GetOptions) (*v1alpha1.Pool, error) {
	if err := c.w.apiCall("get", "pool", name); err != nil {
		return nil, err
	}
	defer c.w.afterCall()
	p, ok := c.w.PoolObjs[name]
	if !ok {
		return nil, apierrors.NewNotFound(poolGR, name)
	}
	return p.DeepCopy(), nil
}

func (c *poolClient) Create(ctx gocontext.Context, p *v1alpha1.Pool, _ metav1.CreateOptions) (*v1alpha1.Pool, error) {
	if err := c.w.apiCall("create", "pool", fmt.Sprintf("%s size=%d", p.Name, p.Size)); err != nil {
		return nil, err
	}
	defer c.w.afterCall()
	if _, ok := c.w.PoolObjs[p.Name]; ok {
		return nil, apierrors.NewAlreadyExists(poolGR, p.Name)
	}
	q := p.DeepCopy()
	q.Namespace = "kube-system"
	c.w.PoolObjs[p.Name] = q
	if !c.w.Cfg.Lag {
		_ = c.w.poolIdx.Update(q.DeepCopy())
	}
	return q.DeepCopy(), nil
}

func (c *poolClient) Update(ctx gocontext.Context, p *v1alpha1.Pool, _ metav1.UpdateOptions) (*v1alpha1.Pool, error) {
	if err := c.w.apiCall("update", "pool", fmt.Sprintf("%s size=%d", p.Name, p.Size)); err != nil {
		return nil, err
	}
	defer c.w.afterCall()
	if _, ok := c.w.PoolObjs[p.Name]; !ok {
		return nil, apierrors.NewNotFound(poolGR, p.Name)
	}
	q := p.DeepCopy()
	q.Namespace = "kube-system"
	c.w.PoolObjs[p.Name] = q
	if !c.w.Cfg.Lag {
		_ = c.w.poolIdx.Update(q.DeepCopy())
	}
	return q.DeepCopy(), nil
}

func (c *poolClient) Delete(ctx gocontext.Context, name string, _ metav1.DeleteOptions) error {
	if err := c.w.apiCall("delete", "pool", name); err != nil {
		return err
	}
	defer c.w.afterCall()
	p, ok := c.w.PoolObjs[name]
	if !ok {
		return apierrors.NewNotFound(poolGR, name)
	}
	delete(c.w.PoolObjs, name)
	if !c.w.Cfg.Lag {
		_ = c.w.poolIdx.Delete(p)
	}
	return nil
}

// ---------------------------------------------------------------------------------------------
// FloatingIP informer stub: captures the event handler the IPAM registers.

type fipInformerStub struct {
	h cache.ResourceEventHandler
}

func (s *fipInformerStub) Informer() cache.SharedIndexInformer { return &sharedStub{s: s} }
func (s *fipInformerStub) Lister() galaxylisters.FloatingIPLister {
	return nil
}

var _ galaxyinformer.FloatingIPInformer = &fipInformerStub{}

type sharedStub struct {
	cache.SharedIndexInformer
	s *fipInformerStub
}

func (s *sharedStub) AddEventHandler(h cache.ResourceEventHandler) { s.s.h = h }

// ---------------------------------------------------------------------------------------------
// recording cloud provider

// RecProvider records every provider call and keeps the provider-side assignment table.
type RecProvider struct {
	w        *World
	Calls    []CloudCall
	Assigned map[string]string // ip -> node
	// FailAt > 0 makes the FailAt-th call fail cleanly.
	FailAt int
	n      int
}

func (r *RecProvider) fail() bool {
	r.w.wrote()
	r.n++
	if r.FailAt > 0 && r.n == r.FailAt {
		return true
	}
	return coop.Choose("cloudfail", 2) == 1
}

// FailNext makes the next provider call fail cleanly.
func (r *RecProvider) FailNext() { r.FailAt = r.n + 1 }

// FailNth makes the k-th provider call from now on fail cleanly.
func (r *RecProvider) FailNth(k int) { r.FailAt = r.n + k }

func (r *RecProvider) AssignIP(in *rpc.AssignIPRequest) (*rpc.AssignIPReply, error) {
	coop.Point("cloud", "assign "+in.IPAddress+"->"+in.NodeName)
	defer r.w.freeLock()()
	if r.fail() {
		r.Calls = append(r.Calls, CloudCall{"assign", in.IPAddress, in.NodeName, false, r.w.Step, r.w.who()})
		return &rpc.AssignIPReply{Success: false, Msg: "injected"}, nil
	}
	r.Calls = append(r.Calls, CloudCall{"assign", in.IPAddress, in.NodeName, true, r.w.Step, r.w.who()})
	r.Assigned[in.IPAddress] = in.NodeName
	return &rpc.AssignIPReply{Success: true}, nil
}

func (r *RecProvider) UnAssignIP(in *rpc.UnAssignIPRequest) (*rpc.UnAssignIPReply, error) {
	coop.Point("cloud", "unassign "+in.IPAddress+"<-"+in.NodeName)
	defer r.w.freeLock()()
	if r.fail() {
		r.Calls = append(r.Calls, CloudCall{"unassign", in.IPAddress, in.NodeName, false, r.w.Step, r.w.who()})
		return &rpc.UnAssignIPReply{Success: false, Msg: "injected"}, nil
	}
	r.Calls = append(r.Calls, CloudCall{"unassign", in.IPAddress, in.NodeName, true, r.w.Step, r.w.who()})
	if r.Assigned[in.IPAddress] == in.NodeName {
		delete(r.Assigned, in.IPAddress)
	}
	return &rpc.UnAssignIPReply{Success: true}, nil
}

// Preempt calls the plugin's Preempt for the pod with every node as a candidate.
func (w *World) Preempt(key string) map[string]*schedulerapi.MetaVictims {
	unlock := w.freeLock()
	pod := w.Pods[key]
	if pod != nil {
		pod = pod.DeepCopy()
	}
	unlock()
	if pod == nil {
		return nil
	}
	args := &schedulerapi.ExtenderPreemptionArgs{Pod: pod, NodeNameToMetaVictims: map[string]*schedulerapi.MetaVictims{}}
	for _, n := range w.Cfg.Nodes {
		args.NodeNameToMetaVictims[n.Name] = &schedulerapi.MetaVictims{}
	}
	return w.Plugin.Preempt(args)
}

// PoolSize returns the size of the Pool object in the API truth, or -1 if there is none.
func (w *World) PoolSize(name string) int {
	if p, ok := w.PoolObjs[name]; ok {
		return p.Size
	}
	return -1
}

// SyncAllPodCaches makes the informer cache of every pod equal to the truth (lag mode).
func (w *World) SyncAllPodCaches() {
	for _, o := range w.podIdx.List() {
		_ = w.podIdx.Delete(o)
	}
	for _, p := range w.Pods {
		_ = w.podIdx.Add(p.DeepCopy())
	}
}

// BindWith calls Bind on a specific plugin instance (an instance that was replaced by a restart may still be finishing a request).
func (w *World) BindWith(p *schedulerplugin.FloatingIPPlugin, ns, name, uid, node string) error {
	return p.Bind(&schedulerapi.ExtenderBindingArgs{PodName: name, PodNamespace: ns, PodUID: types.UID(uid), Node: node})
}
