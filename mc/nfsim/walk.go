package nfsim

import (
	"fmt"
	"net"
	"strconv"
	"strings"
)

// Packet is a new connection's first packet.
type Packet struct {
	Src, Dst string
	Proto    string // tcp | udp
	DPort    int
	State    string // NEW unless set
}

func inCIDR(cidr, ip string) bool {
	neg := false
	if strings.HasPrefix(cidr, "! ") {
		neg = true
		cidr = cidr[2:]
	}
	_, n, err := net.ParseCIDR(cidr)
	if err != nil {
		return false
	}
	return n.Contains(net.ParseIP(ip)) != neg
}

// setContains implements ipset lookup: hash:ip exact; hash:net most specific prefix wins, a nomatch entry excludes.
func (k *Kernel) setContains(name, ip string) (bool, error) {
	s, ok := k.Sets[name]
	if !ok {
		return false, fmt.Errorf("set %s does not exist", name)
	}
	switch s.Type {
	case "hash:ip":
		_, ok := s.Entries[ip]
		return ok, nil
	case "hash:net":
		best, bestNo := -1, false
		pip := net.ParseIP(ip)
		for e, nomatch := range s.Entries {
			c := e
			if !strings.Contains(c, "/") {
				c += "/32"
			}
			_, n, err := net.ParseCIDR(c)
			if err != nil || !n.Contains(pip) {
				continue
			}
			ones, _ := n.Mask.Size()
			if ones > best {
				best, bestNo = ones, nomatch
			}
		}
		return best >= 0 && !bestNo, nil
	}
	return false, fmt.Errorf("set type %s not supported by the packet walk", s.Type)
}

func portIn(list string, port int) bool {
	for _, p := range strings.Split(list, ",") {
		if strings.Contains(p, ":") {
			ab := strings.SplitN(p, ":", 2)
			a, _ := strconv.Atoi(ab[0])
			b, _ := strconv.Atoi(ab[1])
			if port >= a && port <= b {
				return true
			}
			continue
		}
		if n, err := strconv.Atoi(p); err == nil && n == port {
			return true
		}
	}
	return false
}

func (k *Kernel) ruleMatches(r *Rule, p Packet) (bool, error) {
	if r.Src != "" && !inCIDR(r.Src, p.Src) {
		return false, nil
	}
	if r.Dst != "" && !inCIDR(r.Dst, p.Dst) {
		return false, nil
	}
	if r.Proto != "" && r.Proto != p.Proto {
		return false, nil
	}
	m := r.Matches
	for i := 0; i < len(m); i++ {
		switch m[i] {
		case "-m":
			i++ // module name; its options follow
		case "--comment":
			i++
		case "--match-set":
			if i+2 >= len(m) {
				return false, fmt.Errorf("bad --match-set in %q", r.Spec())
			}
			neg := i > 0 && m[i-1] == "!"
			ip := p.Src
			if strings.HasPrefix(m[i+2], "dst") {
				ip = p.Dst
			}
			in, err := k.setContains(m[i+1], ip)
			if err != nil {
				return false, err
			}
			if in == neg {
				return false, nil
			}
			i += 2
		case "--dports", "--dport":
			if i+1 >= len(m) {
				return false, fmt.Errorf("bad %s", m[i])
			}
			if !portIn(m[i+1], p.DPort) {
				return false, nil
			}
			i++
		case "--ctstate":
			st := p.State
			if st == "" {
				st = "NEW"
			}
			ok := false
			for _, s := range strings.Split(m[i+1], ",") {
				if s == st {
					ok = true
				}
			}
			if !ok {
				return false, nil
			}
			i++
		case "!":
		default:
			return false, fmt.Errorf("match option %q of rule %q is not supported by the packet walk", m[i], r.Spec())
		}
	}
	return true, nil
}

// Walk runs the packet through a built-in chain of a table and returns ACCEPT or DROP plus the rules that matched.
func (k *Kernel) Walk(table, hook string, p Packet) (string, []string, error) {
	t := k.table(table)
	var trace []string
	var walk func(chain string, depth int) (string, error)
	walk = func(chain string, depth int) (string, error) {
		if depth > 16 {
			return "", fmt.Errorf("chain loop at %s", chain)
		}
		c := t.Chains[chain]
		if c == nil {
			return "", fmt.Errorf("no chain %s", chain)
		}
		for _, r := range c.Rules {
			ok, err := k.ruleMatches(r, p)
			if err != nil {
				return "", err
			}
			if !ok {
				continue
			}
			trace = append(trace, "-A "+chain+" "+r.Spec())
			switch r.Target {
			case "ACCEPT", "DROP":
				return r.Target, nil
			case "REJECT":
				return "DROP", nil
			case "RETURN":
				return "", nil
			case "":
				continue
			default:
				if builtinTargets[r.Target] {
					continue // non-terminating targets (MARK, LOG)
				}
				v, err := walk(r.Target, depth+1)
				if err != nil || v != "" {
					return v, err
				}
			}
		}
		return "", nil
	}
	v, err := walk(hook, 0)
	if err != nil {
		return "", trace, err
	}
	if v == "" {
		v = t.Chains[hook].Policy
	}
	return v, trace, nil
}
