// Package nfsim simulates netfilter (iptables, iptables-save, iptables-restore, ipset) at the exec boundary, so that the
// repository's own runners and parsers (pkg/utils/iptables, pkg/utils/ipset) run unchanged on top of it.
//
// Encoded kernel rules (each one is what the real tools do, see DESIGN.md 3.4):
//   - a restore is atomic per invocation; under --noflush a chain line creates a user chain or flushes an existing one
//   - -A appends (duplicates allowed); -I prepends; -D/-C compare normalised rule specifications
//   - a rule may only jump to an existing chain or a built-in target; --match-set needs an existing set
//   - -X fails on a non-empty or still referenced chain; ipset destroy fails on a set referenced by a rule
package nfsim

import (
	"bytes"
	"context"
	"fmt"
	"io"
	"net"
	"sort"
	"strconv"
	"strings"
	"sync"

	utilexec "k8s.io/utils/exec"
)

// Rule is one parsed rule.
type Rule struct {
	Src, Dst string // normalised CIDR or ""
	In, Out  string
	Proto    string   // "", tcp, udp, ...
	Matches  []string // remaining match tokens in order (e.g. -m comment --comment x -m set --match-set S src)
	Target   string
	TOpts    []string
	Goto     bool
}

// Spec renders the rule specification (without -A chain) in save order.
func (r *Rule) Spec() string {
	var p []string
	opt := func(flag, v string) {
		if v == "" {
			return
		}
		if strings.HasPrefix(v, "! ") {
			p = append(p, "!", flag, v[2:])
		} else {
			p = append(p, flag, v)
		}
	}
	opt("-s", r.Src)
	opt("-d", r.Dst)
	opt("-i", r.In)
	opt("-o", r.Out)
	opt("-p", r.Proto)
	for _, m := range r.Matches {
		p = append(p, quoteIfNeeded(m))
	}
	if r.Target != "" {
		if r.Goto {
			p = append(p, "-g", r.Target)
		} else {
			p = append(p, "-j", r.Target)
		}
		p = append(p, r.TOpts...)
	}
	return strings.Join(p, " ")
}

func quoteIfNeeded(s string) string {
	if s == "" || strings.ContainsAny(s, " \t\"'") {
		return `"` + strings.ReplaceAll(s, `"`, `\"`) + `"`
	}
	return s
}

// Chain is a chain of a table.
type Chain struct {
	Name    string
	Builtin bool
	Policy  string
	Rules   []*Rule
}

// Table is one netfilter table.
type Table struct {
	Name   string
	Chains map[string]*Chain
	Order  []string
}

func (t *Table) clone() *Table {
	n := &Table{Name: t.Name, Chains: map[string]*Chain{}, Order: append([]string{}, t.Order...)}
	for k, c := range t.Chains {
		cc := &Chain{Name: c.Name, Builtin: c.Builtin, Policy: c.Policy}
		for _, r := range c.Rules {
			rr := *r
			cc.Rules = append(cc.Rules, &rr)
		}
		n.Chains[k] = cc
	}
	return n
}

// CmdRec is one executed command line.
type CmdRec struct {
	Cmd   string
	Args  []string
	Stdin string
	OK    bool
}

// Set is an ipset.
type Set struct {
	Name    string
	Type    string
	Entries map[string]bool // entry -> nomatch
}

// Kernel is the simulated netfilter state of one network namespace.
type Kernel struct {
	Tables map[string]*Table
	Sets   map[string]*Set
	SetSeq []string
	// Cmds logs every command line; Rejected every command the kernel refused, with the reason.
	Cmds     []string
	Rejected []string
	// Script records every command with its stdin and the simulator's verdict (never cleared): used to replay the exact
	// trace against the real tools.
	Script []CmdRec
	// FailAt > 0 makes the FailAt-th command (counted from the last ResetFault) fail without effect.
	FailAt int
	// FailFrom > 0 makes every command from the FailFrom-th on fail without effect (a persistent failure, e.g. a held lock).
	FailFrom int
	count    int
	// Serialize makes Run safe for concurrent callers (commands are applied one at a time, like under the xtables lock).
	Serialize bool
	mu        sync.Mutex
	// Ports the harness considers bound outside galaxy (unused by the simulator itself).
}

var builtinChains = map[string][]string{
	"filter": {"INPUT", "FORWARD", "OUTPUT"},
	"nat":    {"PREROUTING", "INPUT", "OUTPUT", "POSTROUTING"},
	"mangle": {"PREROUTING", "INPUT", "FORWARD", "OUTPUT", "POSTROUTING"},
}

var builtinTargets = map[string]bool{"ACCEPT": true, "DROP": true, "RETURN": true, "REJECT": true, "DNAT": true, "SNAT": true, "MASQUERADE": true,
	"MARK": true, "LOG": true, "REDIRECT": true, "NOTRACK": true, "TCPMSS": true}

// New returns an empty kernel with the built-in chains.
func New() *Kernel {
	k := &Kernel{Tables: map[string]*Table{}, Sets: map[string]*Set{}}
	for _, t := range []string{"filter", "nat"} {
		k.table(t)
	}
	return k
}

func (k *Kernel) table(name string) *Table {
	t := k.Tables[name]
	if t == nil {
		t = &Table{Name: name, Chains: map[string]*Chain{}}
		for _, c := range builtinChains[name] {
			t.Chains[c] = &Chain{Name: c, Builtin: true, Policy: "ACCEPT"}
			t.Order = append(t.Order, c)
		}
		k.Tables[name] = t
	}
	return t
}

// ClearTable empties one table (built-in chains only, policies ACCEPT).
func (k *Kernel) ClearTable(name string) {
	delete(k.Tables, name)
	k.table(name)
}

// ResetFault restarts the command counter used by FailAt.
func (k *Kernel) ResetFault(at int) { k.FailAt, k.FailFrom, k.count = at, 0, 0 }

// Count returns the number of commands since the last ResetFault.
func (k *Kernel) Count() int { return k.count }

// ---------------------------------------------------------------------------------------------
// rule parsing

func normCIDR(s string) (string, error) {
	neg := ""
	if strings.HasPrefix(s, "!") {
		neg = "! "
		s = strings.TrimSpace(s[1:])
	}
	if !strings.Contains(s, "/") {
		ip := net.ParseIP(s)
		if ip == nil || ip.To4() == nil {
			return "", fmt.Errorf("host/network `%s' not found", s)
		}
		return neg + ip.To4().String() + "/32", nil
	}
	ip, n, err := net.ParseCIDR(s)
	if err != nil || ip.To4() == nil {
		return "", fmt.Errorf("host/network `%s' not found", s)
	}
	ones, _ := n.Mask.Size()
	return fmt.Sprintf("%s%s/%d", neg, n.IP.String(), ones), nil
}

// parseRule parses a rule specification (tokens after the chain name).
func parseRule(tok []string) (*Rule, error) {
	r := &Rule{}
	// split --opt=value
	var t []string
	for _, x := range tok {
		if strings.HasPrefix(x, "--") && strings.Contains(x, "=") {
			i := strings.Index(x, "=")
			t = append(t, x[:i], x[i+1:])
		} else {
			t = append(t, x)
		}
	}
	neg := ""
	for i := 0; i < len(t); i++ {
		need := func() (string, error) {
			if i+1 >= len(t) {
				return "", fmt.Errorf("option %q requires an argument", t[i])
			}
			i++
			v := t[i]
			if neg != "" {
				v, neg = "! "+v, ""
			}
			return v, nil
		}
		if t[i] == "!" && i+1 < len(t) {
			switch t[i+1] {
			case "-s", "--source", "--src", "-d", "--destination", "--dst", "-i", "--in-interface", "-o", "--out-interface", "-p", "--protocol":
				neg = "!"
				continue
			}
		}
		switch t[i] {
		case "-s", "--source", "--src":
			v, err := need()
			if err != nil {
				return nil, err
			}
			if r.Src, err = normCIDR(v); err != nil {
				return nil, err
			}
		case "-d", "--destination", "--dst":
			v, err := need()
			if err != nil {
				return nil, err
			}
			if r.Dst, err = normCIDR(v); err != nil {
				return nil, err
			}
		case "-i", "--in-interface":
			v, err := need()
			if err != nil {
				return nil, err
			}
			r.In = v
		case "-o", "--out-interface":
			v, err := need()
			if err != nil {
				return nil, err
			}
			r.Out = v
		case "-p", "--protocol":
			v, err := need()
			if err != nil {
				return nil, err
			}
			v = strings.ToLower(v)
			if v != "all" {
				r.Proto = v
			}
			_ = neg
		case "-j", "--jump", "-g", "--goto":
			g := t[i] == "-g" || t[i] == "--goto"
			v, err := need()
			if err != nil {
				return nil, err
			}
			r.Target, r.Goto = v, g
			r.TOpts = append([]string{}, t[i+1:]...)
			i = len(t)
		default:
			r.Matches = append(r.Matches, t[i])
		}
	}
	return r, nil
}

// tokenize splits a restore line like a shell would (double quotes).
func tokenize(line string) []string {
	var out []string
	var cur strings.Builder
	inq, has := false, false
	for i := 0; i < len(line); i++ {
		c := line[i]
		switch {
		case c == '\\' && inq && i+1 < len(line):
			i++
			cur.WriteByte(line[i])
		case c == '"':
			inq = !inq
			has = true
		case (c == ' ' || c == '\t') && !inq:
			if has || cur.Len() > 0 {
				out = append(out, cur.String())
				cur.Reset()
				has = false
			}
		default:
			cur.WriteByte(c)
		}
	}
	if has || cur.Len() > 0 {
		out = append(out, cur.String())
	}
	return out
}

func (k *Kernel) setsOf(r *Rule) []string {
	var out []string
	for i, m := range r.Matches {
		if m == "--match-set" && i+1 < len(r.Matches) {
			out = append(out, r.Matches[i+1])
		}
	}
	return out
}

// validate checks the references of a rule against table t and the sets.
func (k *Kernel) validate(t *Table, r *Rule) error {
	if r.Target != "" && !builtinTargets[r.Target] {
		if _, ok := t.Chains[r.Target]; !ok {
			return fmt.Errorf("Couldn't load target `%s':No such file or directory (No chain/target/match by that name)", r.Target)
		}
	}
	for _, s := range k.setsOf(r) {
		if _, ok := k.Sets[s]; !ok {
			return fmt.Errorf("Set %s doesn't exist.", s)
		}
	}
	return nil
}

func referenced(t *Table, chain string) bool {
	for _, c := range t.Chains {
		for _, r := range c.Rules {
			if r.Target == chain {
				return true
			}
		}
	}
	return false
}

// ---------------------------------------------------------------------------------------------
// operations on a table (used both by `iptables` and by restore lines)

const noChain = "No chain/target/match by that name."

func (k *Kernel) op(t *Table, op, chain string, spec []string) (string, error) {
	c := t.Chains[chain]
	switch op {
	case "-N":
		if c != nil {
			return "", fmt.Errorf("Chain already exists.")
		}
		if builtinTargets[chain] {
			return "", fmt.Errorf("Invalid chain name `%s'", chain)
		}
		t.Chains[chain] = &Chain{Name: chain, Policy: "-"}
		t.Order = append(t.Order, chain)
	case "-F":
		if c == nil {
			return "", fmt.Errorf(noChain)
		}
		c.Rules = nil
	case "-X":
		if c == nil {
			return "", fmt.Errorf(noChain)
		}
		if c.Builtin {
			return "", fmt.Errorf("Invalid argument. (built-in chain)")
		}
		if len(c.Rules) > 0 {
			return "", fmt.Errorf("Directory not empty. (chain %s is not empty)", chain)
		}
		if referenced(t, chain) {
			return "", fmt.Errorf("CHAIN_USER_DEL failed (Device or resource busy): chain %s", chain)
		}
		delete(t.Chains, chain)
		for i, n := range t.Order {
			if n == chain {
				t.Order = append(t.Order[:i:i], t.Order[i+1:]...)
				break
			}
		}
	case "-P":
		if c == nil || !c.Builtin || len(spec) != 1 {
			return "", fmt.Errorf("Bad built-in chain name or policy.")
		}
		c.Policy = spec[0]
	case "-A", "-I", "-D", "-C":
		if c == nil {
			return "", fmt.Errorf(noChain)
		}
		if op == "-I" && len(spec) > 0 {
			if _, err := strconv.Atoi(spec[0]); err == nil {
				spec = spec[1:] // position: only 1 is used
			}
		}
		r, err := parseRule(spec)
		if err != nil {
			return "", err
		}
		if op == "-A" || op == "-I" {
			if err := k.validate(t, r); err != nil {
				return "", err
			}
			if op == "-A" {
				c.Rules = append(c.Rules, r)
			} else {
				c.Rules = append([]*Rule{r}, c.Rules...)
			}
			return "", nil
		}
		want := r.Spec()
		for i, e := range c.Rules {
			if e.Spec() == want {
				if op == "-D" {
					c.Rules = append(c.Rules[:i:i], c.Rules[i+1:]...)
				}
				return "", nil
			}
		}
		return "", fmt.Errorf("Bad rule (does a matching rule exist in that chain?).")
	case "-S", "-L":
		if chain == "" {
			return k.saveRules(t, ""), nil
		}
		if c == nil {
			return "", fmt.Errorf(noChain)
		}
		return k.saveRules(t, chain), nil
	default:
		return "", fmt.Errorf("unsupported operation %s", op)
	}
	return "", nil
}

func (k *Kernel) saveRules(t *Table, only string) string {
	var b strings.Builder
	for _, n := range t.Order {
		if only != "" && n != only {
			continue
		}
		c := t.Chains[n]
		if c.Builtin {
			fmt.Fprintf(&b, "-P %s %s\n", n, c.Policy)
		} else {
			fmt.Fprintf(&b, "-N %s\n", n)
		}
	}
	for _, n := range t.Order {
		if only != "" && n != only {
			continue
		}
		for _, r := range t.Chains[n].Rules {
			fmt.Fprintf(&b, "-A %s %s\n", n, r.Spec())
		}
	}
	return b.String()
}

// Save renders a table in iptables-save format.
func (k *Kernel) Save(table string) string {
	t := k.table(table)
	var b strings.Builder
	fmt.Fprintf(&b, "*%s\n", table)
	for _, n := range t.Order {
		c := t.Chains[n]
		fmt.Fprintf(&b, ":%s %s [0:0]\n", n, c.Policy)
	}
	for _, n := range t.Order {
		for _, r := range t.Chains[n].Rules {
			fmt.Fprintf(&b, "-A %s %s\n", n, r.Spec())
		}
	}
	b.WriteString("COMMIT\n")
	return b.String()
}

// SaveSets renders all sets in `ipset save` like form (sorted).
func (k *Kernel) SaveSets() string {
	var names []string
	for n := range k.Sets {
		names = append(names, n)
	}
	sort.Strings(names)
	var b strings.Builder
	for _, n := range names {
		s := k.Sets[n]
		fmt.Fprintf(&b, "create %s %s\n", n, s.Type)
		var es []string
		for e, nm := range s.Entries {
			if nm {
				e += " nomatch"
			}
			es = append(es, e)
		}
		sort.Strings(es)
		for _, e := range es {
			fmt.Fprintf(&b, "add %s %s\n", n, e)
		}
	}
	return b.String()
}

// restore applies an iptables-restore --noflush input atomically.
func (k *Kernel) restore(data string, onlyTable string) error {
	work := map[string]*Table{}
	var cur *Table
	for ln, line := range strings.Split(data, "\n") {
		line = strings.TrimSpace(line)
		if line == "" || strings.HasPrefix(line, "#") {
			continue
		}
		fail := func(err error) error { return fmt.Errorf("iptables-restore: line %d failed: %s: %v", ln+1, line, err) }
		switch {
		case strings.HasPrefix(line, "*"):
			name := line[1:]
			if _, ok := builtinChains[name]; !ok {
				return fail(fmt.Errorf("can't initialize iptables table `%s': Table does not exist", name))
			}
			if onlyTable != "" && onlyTable != name {
				cur = nil
				continue
			}
			if work[name] == nil {
				work[name] = k.table(name).clone()
			}
			cur = work[name]
		case line == "COMMIT":
			cur = nil
		case cur == nil:
			continue
		case strings.HasPrefix(line, ":"):
			f := strings.Fields(line[1:])
			if len(f) < 2 {
				return fail(fmt.Errorf("bad chain line"))
			}
			name, policy := f[0], f[1]
			if c, ok := cur.Chains[name]; ok {
				if c.Builtin {
					if policy != "-" {
						c.Policy = policy
					}
				} else {
					c.Rules = nil // --noflush: an existing user chain named in the input is flushed
				}
			} else {
				if _, err := k.op(cur, "-N", name, nil); err != nil {
					return fail(err)
				}
			}
		default:
			tok := tokenize(line)
			if len(tok) > 0 && strings.HasPrefix(tok[0], "[") {
				tok = tok[1:] // counters
			}
			if len(tok) < 2 {
				return fail(fmt.Errorf("bad line"))
			}
			if _, err := k.op(cur, tok[0], tok[1], tok[2:]); err != nil {
				return fail(err)
			}
		}
	}
	for n, t := range work {
		k.Tables[n] = t
	}
	return nil
}

// ---------------------------------------------------------------------------------------------
// ipset

func (k *Kernel) ipset(args []string) (string, error) {
	exist := false
	var a []string
	for _, x := range args {
		if x == "-exist" || x == "-!" {
			exist = true
		} else {
			a = append(a, x)
		}
	}
	if len(a) == 0 {
		return "", fmt.Errorf("ipset: no command")
	}
	switch a[0] {
	case "--version", "version":
		return "ipset v7.17, protocol version: 7\n", nil
	case "create":
		if len(a) < 3 {
			return "", fmt.Errorf("ipset create: missing arguments")
		}
		if s, ok := k.Sets[a[1]]; ok {
			if exist && s.Type == a[2] {
				return "", nil
			}
			return "", fmt.Errorf("ipset v7.17: Set cannot be created: set with the same name already exists")
		}
		if a[2] != "hash:ip" && a[2] != "hash:net" && a[2] != "hash:ip,port" && a[2] != "bitmap:port" && a[2] != "hash:net,port" && a[2] != "hash:ip,port,ip" && a[2] != "hash:ip,port,net" {
			return "", fmt.Errorf("ipset v7.17: Syntax error: unknown settype %s", a[2])
		}
		k.Sets[a[1]] = &Set{Name: a[1], Type: a[2], Entries: map[string]bool{}}
		k.SetSeq = append(k.SetSeq, a[1])
	case "add", "del", "test":
		if len(a) < 3 {
			return "", fmt.Errorf("ipset %s: missing arguments", a[0])
		}
		s, ok := k.Sets[a[1]]
		if !ok {
			return "", fmt.Errorf("ipset v7.17: The set with the given name does not exist")
		}
		e, err := normEntry(s.Type, a[2])
		if err != nil {
			return "", err
		}
		nomatch := false
		for _, o := range a[3:] {
			if o == "nomatch" {
				nomatch = true
			}
		}
		_, have := s.Entries[e]
		switch a[0] {
		case "add":
			if have && !exist {
				return "", fmt.Errorf("ipset v7.17: Element cannot be added to the set: it's already added")
			}
			s.Entries[e] = nomatch
		case "del":
			if !have {
				if exist {
					return "", nil
				}
				return "", fmt.Errorf("ipset v7.17: Element cannot be deleted from the set: it's not added")
			}
			delete(s.Entries, e)
		case "test":
			if !have {
				return e + " is NOT in set " + a[1] + ".\n", fmt.Errorf("exit status 1")
			}
			return e + " is in set " + a[1] + ".\n", nil
		}
	case "flush":
		if len(a) < 2 {
			for _, s := range k.Sets {
				s.Entries = map[string]bool{}
			}
			return "", nil
		}
		s, ok := k.Sets[a[1]]
		if !ok {
			return "", fmt.Errorf("ipset v7.17: The set with the given name does not exist")
		}
		s.Entries = map[string]bool{}
	case "destroy":
		if len(a) < 2 {
			for n := range k.Sets {
				if k.setReferenced(n) {
					return "", fmt.Errorf("ipset v7.17: Set cannot be destroyed: it is in use by a kernel component")
				}
			}
			k.Sets = map[string]*Set{}
			k.SetSeq = nil
			return "", nil
		}
		if _, ok := k.Sets[a[1]]; !ok {
			return "", fmt.Errorf("ipset v7.17: The set with the given name does not exist")
		}
		if k.setReferenced(a[1]) {
			return "", fmt.Errorf("ipset v7.17: Set cannot be destroyed: it is in use by a kernel component")
		}
		delete(k.Sets, a[1])
		for i, n := range k.SetSeq {
			if n == a[1] {
				k.SetSeq = append(k.SetSeq[:i:i], k.SetSeq[i+1:]...)
				break
			}
		}
	case "list":
		if len(a) >= 2 && (a[1] == "-n" || a[1] == "-name") {
			return strings.Join(k.SetSeq, "\n"), nil
		}
		var names []string
		if len(a) >= 2 {
			if _, ok := k.Sets[a[1]]; !ok {
				return "", fmt.Errorf("ipset v7.17: The set with the given name does not exist")
			}
			names = []string{a[1]}
		} else {
			names = append(names, k.SetSeq...)
		}
		var b strings.Builder
		for _, n := range names {
			s := k.Sets[n]
			fmt.Fprintf(&b, "Name: %s\nType: %s\nRevision: 6\nHeader: family inet hashsize 1024 maxelem 65536\nSize in memory: 448\nReferences: %d\nNumber of entries: %d\nMembers:\n",
				n, s.Type, k.refCount(n), len(s.Entries))
			var es []string
			for e, nm := range s.Entries {
				if nm {
					e += " nomatch"
				}
				es = append(es, e)
			}
			sort.Strings(es)
			for _, e := range es {
				b.WriteString(e + "\n")
			}
			if len(names) > 1 {
				b.WriteString("\n")
			}
		}
		return b.String(), nil
	default:
		return "", fmt.Errorf("ipset: unsupported command %v", a)
	}
	return "", nil
}

func normEntry(typ, e string) (string, error) {
	switch typ {
	case "hash:ip":
		ip := net.ParseIP(e)
		if ip == nil || ip.To4() == nil {
			return "", fmt.Errorf("ipset v7.17: Syntax error: cannot parse %s: resolving to IPv4 address failed", e)
		}
		return ip.To4().String(), nil
	case "hash:net":
		if !strings.Contains(e, "/") {
			ip := net.ParseIP(e)
			if ip == nil || ip.To4() == nil {
				return "", fmt.Errorf("ipset v7.17: Syntax error: cannot parse %s", e)
			}
			return ip.To4().String(), nil
		}
		_, n, err := net.ParseCIDR(e)
		if err != nil {
			return "", fmt.Errorf("ipset v7.17: Syntax error: cannot parse %s", e)
		}
		ones, _ := n.Mask.Size()
		if ones == 32 {
			return n.IP.String(), nil
		}
		return fmt.Sprintf("%s/%d", n.IP.String(), ones), nil
	}
	return e, nil
}

func (k *Kernel) refCount(set string) int {
	n := 0
	for _, t := range k.Tables {
		for _, c := range t.Chains {
			for _, r := range c.Rules {
				for _, s := range k.setsOf(r) {
					if s == set {
						n++
					}
				}
			}
		}
	}
	return n
}

func (k *Kernel) setReferenced(set string) bool { return k.refCount(set) > 0 }

// ---------------------------------------------------------------------------------------------
// exec.Interface

// Run executes one command line against the kernel.
func (k *Kernel) Run(cmd string, args []string, stdin []byte) (string, error) {
	if k.Serialize {
		k.mu.Lock()
		defer k.mu.Unlock()
	}
	line := cmd + " " + strings.Join(args, " ")
	k.count++
	k.Cmds = append(k.Cmds, line)
	if (k.FailAt > 0 && k.count == k.FailAt) || (k.FailFrom > 0 && k.count >= k.FailFrom) {
		k.Cmds[len(k.Cmds)-1] = "FAULT " + line
		return "injected failure", utilexec.CodeExitError{Err: fmt.Errorf("exit status 4"), Code: 4}
	}
	out, err := k.run(cmd, args, stdin)
	k.Script = append(k.Script, CmdRec{Cmd: cmd, Args: append([]string{}, args...), Stdin: string(stdin), OK: err == nil})
	if err != nil {
		reason := err.Error()
		// -C probing and "already exists" are not refusals of a batch
		k.Rejected = append(k.Rejected, line+" => "+reason)
		return reason + "\n" + out, utilexec.CodeExitError{Err: fmt.Errorf("exit status 1"), Code: 1}
	}
	return out, nil
}

func (k *Kernel) run(cmd string, args []string, stdin []byte) (string, error) {
	switch cmd {
	case "ipset":
		return k.ipset(args)
	case "iptables-save":
		table := ""
		for i, a := range args {
			if a == "-t" && i+1 < len(args) {
				table = args[i+1]
			}
		}
		if table != "" {
			return k.Save(table), nil
		}
		return k.Save("nat") + k.Save("filter"), nil
	case "iptables-restore":
		only := ""
		for i, a := range args {
			if a == "--version" {
				return "iptables-restore v1.8.9 (nf_tables)\n", nil
			}
			if (a == "-T" || a == "--table") && i+1 < len(args) {
				only = args[i+1]
			}
		}
		return "", k.restore(string(stdin), only)
	case "iptables":
		table := "filter"
		var rest []string
		for i := 0; i < len(args); i++ {
			switch args[i] {
			case "--version":
				return "iptables v1.8.9 (nf_tables)\n", nil
			case "-w", "--wait":
				if i+1 < len(args) {
					if _, err := strconv.Atoi(args[i+1]); err == nil {
						i++
					}
				}
			case "-W":
				i++
			case "-t", "--table":
				i++
				if i < len(args) {
					table = args[i]
				}
			default:
				rest = append(rest, args[i])
			}
		}
		if len(rest) == 0 {
			return "", fmt.Errorf("iptables: no command specified")
		}
		if _, ok := builtinChains[table]; !ok {
			return "", fmt.Errorf("can't initialize iptables table `%s': Table does not exist", table)
		}
		chain := ""
		var spec []string
		if len(rest) > 1 {
			chain = rest[1]
			spec = rest[2:]
		}
		return k.op(k.table(table), rest[0], chain, spec)
	}
	return "", fmt.Errorf("nfsim: unknown command %s", cmd)
}

// Exec returns an exec.Interface backed by the kernel.
func (k *Kernel) Exec() utilexec.Interface { return &fakeExec{k: k} }

type fakeExec struct{ k *Kernel }

func (f *fakeExec) Command(cmd string, args ...string) utilexec.Cmd {
	return &fakeCmd{k: f.k, cmd: cmd, args: args}
}
func (f *fakeExec) CommandContext(ctx context.Context, cmd string, args ...string) utilexec.Cmd {
	return f.Command(cmd, args...)
}
func (f *fakeExec) LookPath(file string) (string, error) { return "/sbin/" + file, nil }

type fakeCmd struct {
	k      *Kernel
	cmd    string
	args   []string
	stdin  io.Reader
	stdout io.Writer
	stderr io.Writer
}

func (c *fakeCmd) exec() ([]byte, error) {
	var in []byte
	if c.stdin != nil {
		in, _ = io.ReadAll(c.stdin)
	}
	out, err := c.k.Run(c.cmd, c.args, in)
	return []byte(out), err
}

func (c *fakeCmd) Run() error {
	out, err := c.exec()
	if c.stdout != nil {
		if err == nil {
			_, _ = c.stdout.Write(out)
		}
	}
	if err != nil && c.stderr != nil {
		_, _ = c.stderr.Write(out)
	}
	return err
}
func (c *fakeCmd) CombinedOutput() ([]byte, error) { return c.exec() }
func (c *fakeCmd) Output() ([]byte, error)         { return c.exec() }
func (c *fakeCmd) SetDir(dir string)               {}
func (c *fakeCmd) SetStdin(in io.Reader)           { c.stdin = in }
func (c *fakeCmd) SetStdout(out io.Writer)         { c.stdout = out }
func (c *fakeCmd) SetStderr(out io.Writer)         { c.stderr = out }
func (c *fakeCmd) SetEnv(env []string)             {}
func (c *fakeCmd) StdoutPipe() (io.ReadCloser, error) {
	return io.NopCloser(bytes.NewReader(nil)), nil
}
func (c *fakeCmd) StderrPipe() (io.ReadCloser, error) {
	return io.NopCloser(bytes.NewReader(nil)), nil
}
func (c *fakeCmd) Start() error { return c.Run() }
func (c *fakeCmd) Wait() error  { return nil }
func (c *fakeCmd) Stop()        {}
