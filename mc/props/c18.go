package props

import (
	"encoding/json"
	"fmt"
	"net/http"
	"strings"
	"time"

	corev1 "k8s.io/api/core/v1"
	networkv1 "k8s.io/api/networking/v1"
	"k8s.io/apimachinery/pkg/api/resource"
	metav1 "k8s.io/apimachinery/pkg/apis/meta/v1"
	"k8s.io/apimachinery/pkg/types"
	"k8s.io/apimachinery/pkg/util/intstr"
	"tkestack.io/galaxy/pkg/api/galaxy/constant"

	"verif.local/mc/nfsim"
	"verif.local/mc/world"
)

// C18: no request, watched object or configuration can crash or wedge a daemon. Small-scope input enumeration; every call runs
// under a watchdog; after every input a probe on the SAME instance must still answer (no lock left held).

const c18Timeout = 10 * time.Second

type c18Run struct {
	r     *caseResult
	scen  string
	hangs int
}

// guard runs f under the watchdog and records panics / hangs. Returns false when the instance must be abandoned.
func (c *c18Run) guard(class, what string, f func()) bool {
	c.r.evals++
	p, timedOut := watchdog(c18Timeout, f)
	if timedOut {
		c.hangs++
		c.r.violate("C18", c.scen, class, "call-did-not-return", hangSite(what), fmt.Sprintf("%s did not return within %v", what, c18Timeout), []string{what})
		return false
	}
	if p != nil {
		site, stack := "unknown", ""
		if pi, ok := p.(panicInfo); ok {
			site, stack = panicSite(pi.Stack), trimLines(pi.Stack, 24)
		}
		c.r.violate("C18", c.scen, class, "panic", site, fmt.Sprintf("%s panicked: %v\n%s", what, p, stack), []string{what})
		return false
	}
	return true
}

func hangSite(what string) string {
	if i := strings.Index(what, " "); i > 0 {
		return what[:i]
	}
	return what
}

// ---------------------------------------------------------------------------------------------
// A. pod objects at the scheduler / informer surfaces of galaxy-ipam

var c18ArgsMenu = []string{
	"", // no annotation
	`{"request_ip_range":[["10.10.1.1~10.10.1.2"]]}`,
	`{"request_ip_range":[["10.10.1.3~10.10.1.1"]]}`, // reversed
	`{"request_ip_range":[["10.10.1.2"],["10.10.1.3"]]}`,
	`{"request_ip_range":[["::1"]]}`,
	`{"request_ip_range":[["255.255.255.250~255.255.255.255"]]}`, // boundary: ends at the top of the address space
	`{"request_ip_range":[["0.0.0.0~0.0.0.2"]]}`,
	`{"request_ip_range":[]}`,
	`{"request_ip_range":[[]]}`,
	`{"request_ip_range":null}`,
	`{"request_ip_range":"10.10.1.1"}`,
	`{"request_ip_range":[["x"]]}`,
	`{"request_ip_range":[[1]]}`,
	`{"request_ip_range":[["10.10.1.1"],["10.10.1.1"]]}`, // overlapping requests
	`{`,
	`null`,
	`[]`,
	`{"common":{"ipinfos":[{"ip":null,"vlan":0,"gateway":null}]}}`,
	`{"common":{"ipinfos":[{"ip":"10.10.1.1/24","vlan":70000,"gateway":"x"}]}}`,
	`{"common":{"ipinfos":[{"ip":"10.10.1.2/24","vlan":2,"gateway":"10.10.1.254"}]}}`,
	`{"common":{"ipinfos":"x"}}`,
	`{"request_ip_range":[["10.10.1.1~10.10.1.3"]],"common":{"ipinfos":[{"ip":"10.99.0.1/24","vlan":0,"gateway":"10.99.0.254"}]}}`,
}

// jsonLists returns every JSON array of 1..maxLen elements from the element menu (repetitions and adjacent equal elements
// included: index-shifting bugs in list clean-up code need two equal neighbours).
func jsonLists(elems []string, maxLen int) []string {
	var out []string
	var rec func(cur []string)
	rec = func(cur []string) {
		if len(cur) > 0 {
			out = append(out, "["+strings.Join(cur, ",")+"]")
		}
		if len(cur) == maxLen {
			return
		}
		for _, e := range elems {
			rec(append(append([]string{}, cur...), e))
		}
	}
	rec(nil)
	return out
}

func init() {
	for _, l := range jsonLists([]string{`null`, `["10.10.1.1"]`, `[]`, `[null]`, `"x"`}, 2) {
		c18ArgsMenu = append(c18ArgsMenu, `{"request_ip_range":`+l+`}`)
	}
	for _, l := range jsonLists([]string{`null`, `{"ip":"10.10.1.2/24","vlan":2,"gateway":"10.10.1.254"}`, `{"ip":null}`}, 2) {
		c18ArgsMenu = append(c18ArgsMenu, `{"common":{"ipinfos":`+l+`}}`)
	}
}

type c18Owner struct {
	Name string
	Refs []metav1.OwnerReference
}

var c18Owners = []c18Owner{
	{"none", nil},
	{"sts", []metav1.OwnerReference{{Kind: "StatefulSet", Name: "a"}}},
	{"rs", []metav1.OwnerReference{{Kind: "ReplicaSet", Name: "d-r1"}}},
	{"rs-nodash", []metav1.OwnerReference{{Kind: "ReplicaSet", Name: "d"}}},
	{"two", []metav1.OwnerReference{{Kind: "ReplicaSet", Name: "d-r1"}, {Kind: "StatefulSet", Name: "a"}}},
	{"unknown-kind", []metav1.OwnerReference{{Kind: "Frobnicator", Name: "f"}}},
	{"empty", []metav1.OwnerReference{{Kind: "", Name: ""}}},
	{"tapp", []metav1.OwnerReference{{Kind: "TApp", Name: "t"}}},
}

func c18Pod(name string, owner c18Owner, args, policy, pool string, uid string) *corev1.Pod {
	q := resource.NewQuantity(1, resource.DecimalSI)
	p := &corev1.Pod{ObjectMeta: metav1.ObjectMeta{Name: name, Namespace: "ns", UID: types.UID(uid), OwnerReferences: owner.Refs, Annotations: map[string]string{}},
		Spec: corev1.PodSpec{Containers: []corev1.Container{{Resources: corev1.ResourceRequirements{Requests: corev1.ResourceList{corev1.ResourceName(constant.ResourceName): *q}}}}}}
	if args != "" {
		p.Annotations[constant.ExtendedCNIArgsAnnotation] = args
	}
	if policy != "" {
		p.Annotations[constant.ReleasePolicyAnnotation] = policy
	}
	if pool != "" {
		p.Annotations[constant.IPPoolAnnotation] = pool
	}
	return p
}

func c18PodsJob(shard, nshards int) Job {
	name := fmt.Sprintf("ipam-pods/shard%d", shard)
	return Job{Name: name, Weight: 3, Run: func(deadline time.Time) *ScenResult {
		t0 := time.Now()
		c := &c18Run{r: newCaseResult(), scen: name}
		names := []string{"a-0", "a", "a-x", "a-99999999999999999999", "0"}
		policies := []string{"", "immutable", "never", "Immutable "}
		pools := []string{"", "pl", "p_q"}
		n := 0
		mkWorld := func() *world.World {
			w := world.New(cfgTwoPools(true))
			if err := w.Start(); err != nil {
				panic(err)
			}
			w.SetStatefulSet("ns", "a", 2)
			w.SetDeployment("ns", "d", 2)
			w.SetPoolObj("pl", 1)
			good := world.PodSpec{Name: "good-0", NS: "ns", OwnerKind: "StatefulSet", OwnerName: "good"}
			w.SetStatefulSet("ns", "good", 1)
			w.CreatePod(good)
			return w
		}
		w := mkWorld()
		probe := func(after string) bool {
			return c.guard("probe", "probe(Filter+ListIPs+resync) after "+after, func() {
				_, _ = w.Filter("ns/good-0")
				_, _ = w.APIList("size=3")
				_ = w.Resync()
			})
		}
		for _, owner := range c18Owners {
			for _, pn := range names {
				for _, args := range c18ArgsMenu {
					for _, pol := range policies {
						for _, pool := range pools {
							n++
							if n%nshards != shard {
								continue
							}
							if time.Now().After(deadline) || c.hangs >= 2 {
								c.r.exhausted = false
								return c.r.toScen(name, t0, nil)
							}
							desc := fmt.Sprintf("pod{name=%s owner=%s policy=%q pool=%q args=%s}", pn, owner.Name, pol, pool, args)
							pod := c18Pod(pn, owner, args, pol, pool, fmt.Sprintf("u%d", n))
							ok := true
							for _, node := range []string{"n1", "vanished-node"} {
								w.AddRawPod(pod.DeepCopy())
								ok = ok && c.guard("pod", "Filter "+desc, func() { _, _ = w.FilterPod(pod.DeepCopy()) })
								ok = ok && c.guard("pod", "Preempt "+desc, func() { w.Preempt("ns/" + pn) })
								ok = ok && c.guard("pod", fmt.Sprintf("Bind(node=%s) %s", node, desc), func() { _ = w.Bind("ns", pn, string(pod.UID), node) })
								if !ok {
									break
								}
								ok = ok && probe("Bind(node="+node+") "+desc)
								run := pod.DeepCopy()
								run.Status.Phase = corev1.PodRunning
								run.Spec.NodeName = "n1"
								ok = ok && c.guard("pod", "UpdatePod(running) "+desc, func() { _ = w.Plugin.UpdatePod(pod, run) })
								fin := run.DeepCopy()
								fin.Status.Phase = corev1.PodFailed
								ok = ok && c.guard("pod", "UpdatePod(finished)+unbind "+desc, func() { _ = w.Plugin.UpdatePod(run, fin); w.DrainReleaseQueue() })
								w.DeletePod("ns/" + pn)
								ok = ok && c.guard("pod", "DeletePod+unbind "+desc, func() {
									for len(w.Pending) > 0 {
										w.Deliver(0)
									}
								})
								if !ok {
									break
								}
								ok = ok && probe("DeletePod "+desc)
								if !ok {
									break
								}
							}
							c.r.distinct[hashOf(desc)] = true
							if len(c.r.samples) < 3 && n%977 == 1 {
								c.r.samples = append(c.r.samples, desc)
							}
							if !ok {
								w = mkWorld() // the instance may be wedged or inconsistent: continue on a fresh one
							}
						}
					}
				}
			}
		}
		return c.r.toScen(name, t0, map[string]int{"args": len(c18ArgsMenu), "owners": len(c18Owners)})
	}}
}

// ---------------------------------------------------------------------------------------------
// B. HTTP bodies and queries of the galaxy-ipam API; C. configuration texts

func c18HTTPJob() Job {
	name := "ipam-http+config"
	return Job{Name: name, Weight: 2, Run: func(deadline time.Time) *ScenResult {
		t0 := time.Now()
		c := &c18Run{r: newCaseResult(), scen: name}
		w := world.New(cfgTwoPools(false))
		if err := w.Start(); err != nil {
			panic(err)
		}
		w.SetStatefulSet("ns", "a", 2)
		p := world.PodSpec{Name: "a-0", NS: "ns", OwnerKind: "StatefulSet", OwnerName: "a", Policy: "never"}
		w.CreatePod(p)
		_, _ = w.Schedule(p.Key())
		probe := func(after string) bool {
			return c.guard("probe", "probe after "+after, func() { _, _ = w.Filter(p.Key()); _, _ = w.APIList("size=3"); _ = w.Resync() })
		}
		queries := []string{"", "page=-1", "page=99999999999999999999", "size=0", "size=-5", "size=99999999999", "sort=%00", "sort=ip%20desc&page=7&size=1", "keyword=%", "appType=", "appType=%F0%9F%98%80",
			"poolName=p_q&namespace=_&appName=_&podName=_", "page=1e9", "size=NaN"}
		for _, q := range queries {
			if !c.guard("http", "GET /v1/ip?"+q, func() { w.HTTP(http.MethodGet, "/v1/ip?"+q, nil) }) || !probe("GET /v1/ip?"+q) {
				return c.r.toScen(name, t0, nil)
			}
			c.r.distinct[hashOf("q", q)] = true
		}
		bodies := []string{``, `{`, `null`, `[]`, `{"ips":null}`, `{"ips":[]}`, `{"ips":[null]}`, `{"ips":[{}]}`, `{"ips":[{"ip":""}]}`, `{"ips":[{"ip":"999.1.1.1"}]}`, `{"ips":[{"ip":"::1"}]}`,
			`{"ips":[{"ip":"10.10.1.1","appType":"\u0000"}]}`, `{"ips":[{"ip":"10.10.1.1","podName":"a-0","namespace":"ns","appName":"a","appType":"statefulset"}]}`,
			`{"ips":[{"ip":"10.10.1.1","poolName":"_"}]}`, `{"ips":[{"ip":"255.255.255.255"}]}`, `{"ips":"x"}`, `{"ips":[{"ip":"10.10.1.1","policy":-1}]}`,
			`{"ips":[` + strings.Repeat(`{"ip":"10.10.1.1"},`, 300) + `{"ip":"10.10.1.2"}]}`}
		for _, b := range bodies {
			what := "POST /v1/ip " + trunc(b, 80)
			if !c.guard("http", what, func() { w.HTTP(http.MethodPost, "/v1/ip", b) }) || !probe(what) {
				return c.r.toScen(name, t0, nil)
			}
			c.r.distinct[hashOf("b", b)] = true
		}
		pools := []string{``, `{`, `null`, `{}`, `{"name":""}`, `{"name":"p","size":-1}`, `{"name":"p","size":-1,"preAllocateIP":true}`, `{"name":"p","size":2147483647,"preAllocateIP":true}`,
			`{"name":"p","size":1,"preAllocateIP":true}`, `{"name":"p_q","size":1,"preAllocateIP":true}`, `{"name":"p","size":"1"}`, `{"name":"p","size":0,"preAllocateIP":true}`, `{"name":"` + strings.Repeat("x", 300) + `","size":1}`}
		for _, b := range pools {
			what := "POST /v1/pool " + trunc(b, 80)
			if !c.guard("http", what, func() { w.HTTP(http.MethodPost, "/v1/pool", b) }) || !probe(what) {
				return c.r.toScen(name, t0, nil)
			}
			c.r.distinct[hashOf("p", b)] = true
		}
		for _, path := range []string{"/v1/pool/", "/v1/pool/p", "/v1/pool/%00", "/v1/pool/nope"} {
			for _, m := range []string{http.MethodGet, http.MethodDelete} {
				what := m + " " + path
				if !c.guard("http", what, func() { w.HTTP(m, path, nil) }) || !probe(what) {
					return c.r.toScen(name, t0, nil)
				}
				c.r.distinct[hashOf(m, path)] = true
			}
		}
		// configuration texts through the reload path
		good := poolText("10.10.1.0/24", "10.10.1.254", []string{"10.10.1.1~10.10.1.2"}, "nodeSubnets")
		texts := []string{``, `{`, `null`, `[]`, `[null]`, `[null,` + good + `]`, `[{}]`, `[1]`, `"x"`, `[{"ips":null}]`, `[{"nodeSubnets":[null],"ips":[],"subnet":"10.0.0.0/24","gateway":"10.0.0.1"}]`,
			`[{"nodeSubnets":["x"],"ips":[],"subnet":"10.0.0.0/24","gateway":"10.0.0.1"}]`, `[{"nodeSubnets":["10.0.1.0/24"],"ips":["10.0.0.2"],"subnet":"10.0.0.0/33","gateway":"10.0.0.1"}]`,
			`[{"nodeSubnets":["10.0.1.0/24"],"ips":["255.255.255.254~255.255.255.255"],"subnet":"255.255.255.0/24","gateway":"255.255.255.1"}]`,
			`[{"nodeSubnets":["10.0.1.0/24"],"ips":["0.0.0.0~0.0.0.3"],"subnet":"0.0.0.0/24","gateway":"0.0.0.1"}]`,
			`[{"nodeSubnets":["10.0.1.0/24"],"ips":["10.0.0.2"],"subnet":"10.0.0.0/24","gateway":"::1"}]`,
			`[{"nodeSubnets":["::/0"],"ips":["10.0.0.2"],"subnet":"10.0.0.0/24","gateway":"10.0.0.1"}]`,
			`[{"routableSubnet":"","ips":["10.0.0.2"],"subnet":"10.0.0.0/24","gateway":"10.0.0.1"}]`,
			`[` + good + `,` + good + `]`, `[{"nodeSubnets":["10.0.1.0/24"],"ips":["10.0.0.2"],"subnet":"","gateway":"10.0.0.1"}]`}
		good2 := poolText("10.10.2.0/24", "10.10.2.254", []string{"10.10.2.1"}, "nodeSubnets")
		texts = append(texts, jsonLists([]string{`null`, good, good2, `{}`, `1`}, 3)...)
		for _, ns := range jsonLists([]string{`null`, `"10.0.1.0/24"`, `"x"`}, 3) {
			texts = append(texts, `[{"nodeSubnets":`+ns+`,"ips":["10.0.0.2"],"subnet":"10.0.0.0/24","gateway":"10.0.0.1"}]`)
		}
		for _, ips := range jsonLists([]string{`null`, `"10.0.0.2"`, `"10.0.0.4~10.0.0.5"`, `1`}, 3) {
			texts = append(texts, `[{"nodeSubnets":["10.0.1.0/24"],"ips":`+ips+`,"subnet":"10.0.0.0/24","gateway":"10.0.0.1"}]`)
		}
		for _, txt := range texts {
			what := "reload config " + trunc(txt, 100)
			w.ConfigMap = txt
			if !c.guard("config", what, func() { _ = w.Reload() }) || !probe(what) {
				return c.r.toScen(name, t0, nil)
			}
			c.r.distinct[hashOf("c", txt)] = true
		}
		c.r.samples = append(c.r.samples, "GET /v1/ip?"+queries[2], "POST /v1/pool "+pools[7], "reload config "+texts[4])
		return c.r.toScen(name, t0, map[string]int{"queries": len(queries), "bodies": len(bodies) + len(pools), "configs": len(texts)})
	}}
}

func trunc(s string, n int) string {
	if len(s) > n {
		return s[:n] + "..."
	}
	return s
}

// ---------------------------------------------------------------------------------------------
// D. CNI requests to the galaxy daemon

func c18DaemonJob() Job {
	name := "daemon-cni-requests"
	return Job{Name: name, Weight: 2, Run: func(deadline time.Time) *ScenResult {
		t0 := time.Now()
		c := &c18Run{r: newCaseResult(), scen: name}
		h, err := newCNIHarness(daemonConf{Defaults: []string{"a"}, ENI: "c"})
		if err != nil {
			panic(err)
		}
		defer h.close()
		h.putPod(cniPod{Name: "ok", Networks: "a"})
		probe := func(after string) bool {
			return c.guard("probe", "probe(ADD+DEL of a good pod) after "+after, func() {
				h.request("ADD", "probe", "ok", "eth0")
				h.request("DEL", "probe", "ok", "eth0")
			})
		}
		// raw bodies of the HTTP handler
		envFull := map[string]string{"CNI_COMMAND": "ADD", "CNI_CONTAINERID": h.cidPfx + "raw", "CNI_NETNS": "/proc/1/ns/net", "CNI_IFNAME": "eth0", "CNI_PATH": "/x",
			"CNI_ARGS": "K8S_POD_NAMESPACE=ns;K8S_POD_NAME=ok;K8S_POD_INFRA_CONTAINER_ID=x"}
		var raws []string
		raws = append(raws, ``, `{`, `null`, `[]`, `{"env":null}`, `{"env":{}}`, `{"env":{"CNI_COMMAND":"ADD"}}`, `{"env":"x"}`, `{"config":"!!!"}`)
		for k := range envFull {
			e := map[string]string{}
			for kk, v := range envFull {
				if kk != k {
					e[kk] = v
				}
			}
			b, _ := json.Marshal(map[string]interface{}{"env": e})
			raws = append(raws, string(b))
		}
		for _, args := range []string{"", ";", "=", "a=b", "K8S_POD_NAMESPACE=ns", "K8S_POD_NAME=ok", "K8S_POD_NAMESPACE=;K8S_POD_NAME=", "K8S_POD_NAMESPACE=ns;K8S_POD_NAME=ok;;;=;x",
			"K8S_POD_NAMESPACE=ns;K8S_POD_NAME=ok;ipinfos=[", strings.Repeat("k=v;", 500) + "K8S_POD_NAMESPACE=ns;K8S_POD_NAME=ok"} {
			for _, cmd := range []string{"ADD", "DEL", "VERSION", "", "add"} {
				e := map[string]string{}
				for kk, v := range envFull {
					e[kk] = v
				}
				e["CNI_ARGS"] = args
				e["CNI_COMMAND"] = cmd
				b, _ := json.Marshal(map[string]interface{}{"env": e})
				raws = append(raws, string(b))
			}
		}
		for _, b := range raws {
			what := "POST /cni " + trunc(b, 120)
			if strings.Contains(b, "K8S_POD_NAME=;") || strings.Contains(b, `"K8S_POD_NAMESPACE=;`) {
				continue // a pod that does not exist makes ADD wait 5 s by design; covered once below
			}
			if !c.guard("daemon", what, func() { h.rawRequest(b) }) || !probe(what) {
				return c.r.toScen(name, t0, nil)
			}
			c.r.distinct[hashOf(b)] = true
		}
		// pod annotations
		anns := []string{"a", "a,", ",a", "a//b", "a/b/c", "a@b@c", "@", "/", "a@", " ", "zz", "[", `[{"name":""}]`, `[{"name":"a","interface":""}]`, `[{"namespace":"x"}]`, `[null]`, `{}`, `"a"`, `[{"name":"a"},{"name":"a"},{"name":"a"},{"name":"b"}]`,
			strings.Repeat("a,", 50) + "a"}
		exts := []string{"", "{", "null", `{"common":null}`, `{"common":"x"}`, `{"common":{"ipinfos":null}}`, `{"common":{"a;b":"c=d"}}`, `{"common":{"ipinfos":[{"ip":"10.1.1.1/24"}],"` + strings.Repeat("k", 200) + `":1}}`}
		type annCase struct{ a, e string }
		var extra []annCase
		for _, a := range jsonLists([]string{`null`, `{"name":"a"}`, `{"name":"zz"}`, `{}`, `1`}, 3) {
			extra = append(extra, annCase{a, ""}, annCase{a, exts[5]})
		}
		for _, l := range jsonLists([]string{`null`, `{"ip":"10.10.1.2/24","vlan":2,"gateway":"10.10.1.254"}`, `{"ip":null}`, `{}`}, 3) {
			extra = append(extra, annCase{"a", `{"common":{"ipinfos":` + l + `}}`}, annCase{"", `{"common":{"ipinfos":` + l + `}}`})
		}
		for i, ac := range extra {
			pn := fmt.Sprintf("gen%d", i)
			h.putPod(cniPod{Name: pn, Networks: ac.a, ExtendedArg: ac.e})
			what := fmt.Sprintf("ADD+DEL pod{networks=%q args=%q}", ac.a, ac.e)
			if !c.guard("daemon", what, func() {
				h.request("ADD", pn, pn, "eth0")
				h.request("DEL", pn, pn, "eth0")
			}) || !probe(what) {
				return c.r.toScen(name, t0, nil)
			}
			c.r.distinct[hashOf(ac.a, ac.e)] = true
		}
		for i, a := range anns {
			for j, e := range exts {
				pn := fmt.Sprintf("ann%d-%d", i, j)
				h.putPod(cniPod{Name: pn, Networks: a, ExtendedArg: e, WantENI: j%2 == 1})
				what := fmt.Sprintf("ADD+DEL pod{networks=%q args=%q}", a, e)
				if !c.guard("daemon", what, func() {
					h.request("ADD", pn, pn, "eth0")
					h.request("DEL", pn, pn, "eth0")
				}) || !probe(what) {
					return c.r.toScen(name, t0, nil)
				}
				c.r.distinct[hashOf(a, e)] = true
			}
		}
		c.guard("daemon", "ADD for a pod that does not exist", func() { h.request("ADD", "ghost", "ghost", "eth0") })
		c.r.samples = append(c.r.samples, "POST /cni "+trunc(raws[10], 100), fmt.Sprintf("ADD+DEL pod{networks=%q args=%q}", anns[3], exts[3]))
		return c.r.toScen(name, t0, map[string]int{"raw_bodies": len(raws), "annotations": len(anns)*len(exts) + len(extra)})
	}}
}

// ---------------------------------------------------------------------------------------------
// E. NetworkPolicies

func c18PolicyJob() Job {
	name := "policies"
	return Job{Name: name, Weight: 2, Run: func(deadline time.Time) *ScenResult {
		t0 := time.Now()
		c := &c18Run{r: newCaseResult(), scen: name}
		named := intstr.FromString("http")
		big := intstr.FromInt(70000)
		sctp := corev1.ProtocolSCTP
		tcp := corev1.ProtocolTCP
		badSel := &metav1.LabelSelector{MatchExpressions: []metav1.LabelSelectorRequirement{{Key: "k", Operator: "Bogus", Values: []string{"v"}}}}
		exprSel := &metav1.LabelSelector{MatchExpressions: []metav1.LabelSelectorRequirement{{Key: "app", Operator: metav1.LabelSelectorOpIn, Values: []string{"web", "db"}}, {Key: "x", Operator: metav1.LabelSelectorOpDoesNotExist}}}
		// only objects the API server's validation admits ("every valid NetworkPolicy"): no unknown selector operators or policy
		// types, well-formed CIDRs with excepts inside the block, ports 1..65535 or names, ipBlock not combined with selectors
		_, _ = badSel, big
		peers := [][]networkv1.NetworkPolicyPeer{nil, {}, {{PodSelector: &metav1.LabelSelector{}}}, {{NamespaceSelector: &metav1.LabelSelector{}}}, {{PodSelector: exprSel}}, {{NamespaceSelector: exprSel, PodSelector: exprSel}},
			{{IPBlock: &networkv1.IPBlock{CIDR: "10.0.0.0/8", Except: []string{"10.0.0.0/9", "10.255.255.255/32"}}}}, {{IPBlock: &networkv1.IPBlock{CIDR: "0.0.0.0/0", Except: []string{"0.0.0.0/1", "128.0.0.0/1"}}}},
			{{IPBlock: &networkv1.IPBlock{CIDR: "::/0"}}}, {{IPBlock: &networkv1.IPBlock{CIDR: "fd00::/8", Except: []string{"fd00:1::/32"}}}}, {{IPBlock: &networkv1.IPBlock{CIDR: "255.255.255.255/32"}}},
			{{IPBlock: &networkv1.IPBlock{CIDR: "10.0.0.1/32"}}, {PodSelector: &metav1.LabelSelector{}}, {NamespaceSelector: &metav1.LabelSelector{}}}}
		last := intstr.FromInt(65535)
		udp := corev1.ProtocolUDP
		portss := [][]networkv1.NetworkPolicyPort{nil, {}, {{}}, {{Port: &named}}, {{Port: &last, Protocol: &tcp}}, {{Protocol: &sctp, Port: &named}}, {{Protocol: &sctp}}, {{Protocol: &udp}, {Protocol: &tcp, Port: &last}, {Port: &named}}}
		sels := []*metav1.LabelSelector{{}, sel("app", "web"), exprSel}
		typess := [][]networkv1.PolicyType{nil, tIn, tEg, tBoth}
		n := 0
		// one-rule policies over the full menus, then two-rule policies: every rule shape before and after each of four second rules
		type polCase struct {
			ps     *metav1.LabelSelector
			ty     []networkv1.PolicyType
			in     []networkv1.NetworkPolicyIngressRule
			eg     []networkv1.NetworkPolicyEgressRule
			suffix string
		}
		var cases []polCase
		for _, ps := range sels {
			for _, ty := range typess {
				for _, pe := range peers {
					for _, po := range portss {
						cases = append(cases, polCase{ps, ty, []networkv1.NetworkPolicyIngressRule{{From: pe, Ports: po}}, []networkv1.NetworkPolicyEgressRule{{To: pe, Ports: po}},
							fmt.Sprintf("peers=%s ports=%s", js(pe), js(po))})
					}
				}
			}
		}
		second := []struct {
			pe []networkv1.NetworkPolicyPeer
			po []networkv1.NetworkPolicyPort
		}{{peers[2], nil}, {peers[3], portss[4]}, {peers[6], nil}, {nil, portss[4]}}
		for _, pe := range peers {
			for _, po := range portss {
				for _, s2 := range second {
					for _, order := range []int{0, 1} {
						in := []networkv1.NetworkPolicyIngressRule{{From: pe, Ports: po}, {From: s2.pe, Ports: s2.po}}
						eg := []networkv1.NetworkPolicyEgressRule{{To: pe, Ports: po}, {To: s2.pe, Ports: s2.po}}
						if order == 1 {
							in[0], in[1] = in[1], in[0]
							eg[0], eg[1] = eg[1], eg[0]
						}
						cases = append(cases, polCase{sels[1], tBoth, in, eg, fmt.Sprintf("rules=%s", js(in))})
					}
				}
			}
		}
		for _, pc := range cases {
			ps, ty := pc.ps, pc.ty
			n++
			if time.Now().After(deadline) || c.hangs >= 2 {
				c.r.exhausted = false
				return c.r.toScen(name, t0, nil)
			}
			pol := &networkv1.NetworkPolicy{ObjectMeta: metav1.ObjectMeta{Name: fmt.Sprintf("p%d", n), Namespace: "ns1"},
				Spec: networkv1.NetworkPolicySpec{PodSelector: *ps, PolicyTypes: ty, Ingress: pc.in, Egress: pc.eg}}
			desc := fmt.Sprintf("policy{selector=%v types=%v %s}", ps, ty, pc.suffix)
			k := nfsim.New()
			w := newPolicyWorld(k)
			cl := mkCluster([]string{"web", "db", "cli2", "noip"}, []string{"in-podsel"})
			cl.Policies = append(cl.Policies, pol)
			w.setCluster(cl)
			ok := c.guard("policy", "Run "+desc, func() { w.pm.Run() })
			ok = ok && c.guard("policy", "AddPolicy/UpdatePolicy "+desc, func() { _ = w.pm.AddPolicy(pol); _ = w.pm.UpdatePolicy(pol, pol) })
			ok = ok && c.guard("policy", "pod events "+desc, func() {
				for _, p := range cl.Pods {
					po := w.podObj(p)
					_ = w.pm.UpdatePod(po, po)
					_ = w.pm.DeletePod(po)
				}
			})
			w.setCluster(mkCluster([]string{"web"}, nil))
			ok = ok && c.guard("policy", "DeletePolicy + second Run "+desc, func() { _ = w.pm.DeletePolicy(pol); w.pm.Run() })
			c.r.distinct[hashOf(desc)] = true
			if len(c.r.samples) < 3 && n%211 == 1 {
				c.r.samples = append(c.r.samples, desc)
			}
			_ = ok
		}
		return c.r.toScen(name, t0, map[string]int{"policies": n})
	}}
}

func js(v interface{}) string {
	b, _ := json.Marshal(v)
	return string(b)
}

func init() {
	register(&Property{ID: "C18", Level: "exploration", QuickS: 200, ThoroughS: 900,
		Assume: []string{"inputs are enumerated from boundary-heavy menus (token level), not arbitrary byte strings: 22 args annotations x 8 owner shapes x 5 pod names x 4 policies x 3 pools x 2 nodes; 14 queries; 31 HTTP bodies; 20 configuration texts; ~70 raw CNI request bodies and 160 pod annotation combinations; 1152 one-rule and 768 two-rule valid NetworkPolicies",
			"watchdog: a call that has not returned after 10 s counts as a hang (the calls take microseconds to milliseconds); ranges covering more than 2^16 addresses are not in the alphabet (they are slow, not unbounded)",
			"a pod that does not exist makes the daemon's ADD wait 5 s by design; that case is exercised once"},
		Rule: "every input of every surface is fed to the real entry point (Filter, Preempt, Bind, UpdatePod, DeletePod/unbind; GET/POST/DELETE of the IPAM API; configuration reload; the daemon's /cni handler; PolicyManager Run and event handlers) under a watchdog; every operation of every history of <= 3 (4) lifecycle operations per workload class is run again with its k-th API call failing, then the same instance must answer a Filter per pod, the pending events, a resync and a pool request; every schedule (preemption-bounded, writer-preferring RWMutex model) of every pair of galaxy-ipam entry points must end without deadlock or panic; " +
			"after every input a probe (a normal Filter + ListIPs + resync, resp. a normal ADD+DEL) must still answer on the same instance; a panic, a hang of the call or of the probe is a violation; distinct/non-trivial = distinct inputs",
		Jobs: func(tier string) []Job {
			jobs := []Job{c18HTTPJob(), c18DaemonJob(), c18PolicyJob()}
			for s := 0; s < 12; s++ {
				jobs = append(jobs, c18PodsJob(s, 12))
			}
			// every schedule of every pair of galaxy-ipam entry points (the scenarios of C19, monitor off): no deadlock, no panic
			for _, sc := range c19IPAMScenarios(tier) {
				if len(strings.Split(sc.Name, "||")) > 2 {
					continue
				}
				sc.Weight = 1
				jobs = append(jobs, ExploreJob("C18", sc, oracleNone))
			}
			return append(jobs, c18FaultProbeJobs(tier)...)
		}})
	replayers["C18"] = replayDescOnly
}
