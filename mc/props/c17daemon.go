package props

import (
	"flag"
	"fmt"
	"net"
	"net/http"
	"os"
	"path/filepath"
	"sort"
	"strings"
	"time"

	"tkestack.io/galaxy/pkg/api/docker"
	"tkestack.io/galaxy/pkg/gc"
)

// C17, daemon side: the garbage collector with the real galaxy daemon's port clean callback (cleanIPtables), over the
// state and port files the daemon itself wrote while serving ADD requests for pods with host ports, and the NAT rules in
// the netfilter simulator. Containers die without a DEL; the port file of a dead container is intact, torn, empty or gone.

func c17DaemonJob(tier string) Job {
	name := "gc-with-daemon-callback"
	return Job{Name: name, Weight: 3, Run: func(deadline time.Time) *ScenResult {
		t0 := time.Now()
		r := newCaseResult()
		h, err := newCNIHarness(daemonConf{Defaults: []string{"a"}})
		if err != nil {
			panic(err)
		}
		defer h.close()
		base := int32(43000 + (os.Getpid()%200)*20)
		h.putPod(cniPod{Name: "gp-1", Networks: "a", HostPort: base + 7, HostPort2: base + 9}) // two port mappings
		h.putPod(cniPod{Name: "gp-2", Networks: "a", HostPort: base + 8})
		// fake docker: every id this job does not know is running (other processes' containers are left alone)
		d := &fakeDocker{states: map[string]string{}, unknown: "running"}
		sock := filepath.Join(h.dir, "docker.sock")
		ln, err := net.Listen("unix", sock)
		if err != nil {
			panic(err)
		}
		defer ln.Close()
		go func() { _ = http.Serve(ln, d) }()
		os.Unsetenv("CONTAINERD_HOST")
		os.Setenv("DOCKER_HOST", "unix://"+sock)
		os.Setenv("DOCKER_API_VERSION", "1.23")
		_ = flag.Set("gc_dirs", "/var/lib/cni/galaxy,/var/lib/cni/galaxy/port")
		_ = flag.Set("flannel_allocated_ip_dir", filepath.Join(h.dir, "no-such-dir"))
		cli, err := docker.NewDockerInterface()
		if err != nil {
			panic(err)
		}
		g := gc.NewFlannelGC(embedKubeClient(), cli, make(chan struct{}), h.g.VerifCleanIPtables)
		states := []string{"running", "exited", "dead", "notfound", "err500", "refused", "paused", "created"}
		portForms := []string{"intact", "torn", "empty", "gone", "not-json"}
		cids := []string{"g1", "g2"}
		full := func(c string) string { return h.cidPfx + c }
		stateFile := func(c string) string { return filepath.Join("/var/lib/cni/galaxy", full(c)) }
		portFile := func(c string) string { return filepath.Join("/var/lib/cni/galaxy/port", full(c)) }
		exists := func(p string) bool { _, err := os.Stat(p); return err == nil }
		natOf := func(pod string) []string {
			var out []string
			for _, l := range strings.Split(h.kern.Save("nat"), "\n") {
				if strings.Contains(l, pod+"_") || strings.Contains(l, pod+" ") {
					out = append(out, l)
				}
			}
			sort.Strings(out)
			return out
		}
		for _, s1 := range states {
			for _, s2 := range []string{"running", "exited"} {
				for _, pf := range portForms {
					if time.Now().After(deadline) {
						r.exhausted = false
						return r.toScen(name, t0, nil)
					}
					// fault-free first; for a dead g1 with an intact port file also with the k-th netfilter command of round 1 failing, for
					// every k (rounds 2 and 3 are fault-free: what a failed attempt leaves behind must still be collected)
					maxFault := 0
					for failAt := 0; failAt <= maxFault; failAt++ {
						desc := fmt.Sprintf("containers g1(gp-1)=%s with port file %s, g2(gp-2)=%s; both set up by the daemon, no DEL", s1, pf, s2)
						if failAt > 0 {
							desc += fmt.Sprintf("; the %d-th netfilter command of round 1 fails", failAt)
						}
						h.reset()
						c1, b1 := h.request("ADD", "g1", "gp-1", "eth0")
						c2, b2 := h.request("ADD", "g2", "gp-2", "eth0")
						if c1 != 200 || c2 != 200 {
							panic(fmt.Sprintf("daemon ADD failed: %d %s / %d %s", c1, b1, c2, b2))
						}
						if !exists(stateFile("g1")) || !exists(portFile("g1")) || len(natOf("gp-1")) == 0 || len(natOf("gp-2")) == 0 {
							panic("daemon ADD left no state/port file or NAT rules: " + h.kern.Save("nat"))
						}
						nat2 := natOf("gp-2")
						data, _ := os.ReadFile(portFile("g1"))
						switch pf {
						case "torn":
							_ = os.WriteFile(portFile("g1"), data[:len(data)/2], 0o600)
						case "empty":
							_ = os.WriteFile(portFile("g1"), nil, 0o600)
						case "gone":
							_ = os.Remove(portFile("g1"))
						case "not-json":
							_ = os.WriteFile(portFile("g1"), []byte("\x00\x00garbage"), 0o600)
						}
						d.mu.Lock()
						d.states = map[string]string{full("g1"): s1, full("g2"): s2}
						d.calls, d.n, d.faultAt = nil, 0, 0
						d.mu.Unlock()
						st := map[string]string{"g1": s1, "g2": s2}
						r.evals++
						for round := 1; round <= 3; round++ {
							if round == 1 {
								h.kern.ResetFault(failAt)
							}
							gc.VerifRunOnce(g)
							if round == 1 {
								if failAt == 0 && pf == "intact" && dead(s1) {
									maxFault = h.kern.Count()
								}
								h.kern.ResetFault(0)
							}
							// safety after every round
							for _, c := range cids {
								if dead(st[c]) {
									continue
								}
								if !exists(stateFile(c)) || (c == "g2" || pf != "gone") && !exists(portFile(c)) {
									r.violate("C17", name, "safety", "state-of-live-or-unknown-container-removed", st[c], fmt.Sprintf("%s: state or port file of %s removed in round %d", desc, c, round), []string{desc})
								}
							}
							if !dead(s2) && fmt.Sprint(natOf("gp-2")) != fmt.Sprint(nat2) {
								r.violate("C17", name, "safety", "port-mapping-cleaned-for-live-or-unknown-container", s2, fmt.Sprintf("%s: NAT rules of gp-2 changed in round %d: %v -> %v", desc, round, nat2, natOf("gp-2")), []string{desc})
							}
							if !dead(s1) && pf == "intact" && len(natOf("gp-1")) == 0 {
								r.violate("C17", name, "safety", "port-mapping-cleaned-for-live-or-unknown-container", s1, fmt.Sprintf("%s: NAT rules of gp-1 removed in round %d", desc, round), []string{desc})
							}
						}
						// liveness after three rounds: nothing of a dead container is left
						var left []string
						for _, c := range cids {
							if !dead(st[c]) {
								continue
							}
							for _, p := range []string{stateFile(c), portFile(c)} {
								if exists(p) {
									left = append(left, strings.Replace(p, h.cidPfx, "", 1))
								}
							}
						}
						if dead(s1) && pf == "intact" {
							left = append(left, natOf("gp-1")...)
						}
						if dead(s2) {
							left = append(left, natOf("gp-2")...)
						}
						if len(left) > 0 {
							r.violate("C17", name, "liveness", "dead-container-state-survives-three-rounds", "gc+daemon-callback", fmt.Sprintf("%s: still there after three rounds: %v", desc, left), []string{desc})
						}
						// tear down through the daemon (closes the host port sockets of this case)
						defer0 := func() {
							h.request("DEL", "g1", "gp-1", "eth0")
							h.request("DEL", "g2", "gp-2", "eth0")
						}
						r.distinct[hashOf(s1, s2, pf, failAt, exists(stateFile("g1")), exists(portFile("g1")), exists(stateFile("g2")), len(natOf("gp-1")), len(natOf("gp-2")))] = true
						if len(r.samples) < 3 && r.evals%17 == 1 {
							r.samples = append(r.samples, fmt.Sprintf("%s -> files g1 %v/%v g2 %v/%v, NAT rules gp-1 %d gp-2 %d", desc, exists(stateFile("g1")), exists(portFile("g1")), exists(stateFile("g2")), exists(portFile("g2")), len(natOf("gp-1")), len(natOf("gp-2"))))
						}
						defer0()
					}
				}
			}
		}
		return r.toScen(name, t0, map[string]int{"containers": 2, "port_file_forms": len(portForms)})
	}}
}
