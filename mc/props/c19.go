package props

import (
	"fmt"
	"strings"

	"github.com/prometheus/client_golang/prometheus"
	corev1 "k8s.io/api/core/v1"

	"verif.local/mc/coop"
	"verif.local/mc/world"
)

// C19: shared state is free of data races. Every explored schedule runs with the happens-before monitor on: vector clocks
// per thread, edges from the lock shims and from spawns, every access to the monitored shared fields reported by the
// instrumentation. Two conflicting accesses unordered by happens-before = data race; no enabled thread = deadlock.

type c19Setup struct {
	w          *world.World
	x, y, z    world.PodSpec
	tk, tu     world.PodSpec            // pods of a scalable CRD kind / of a kind no CRD describes
	crdOld     map[string][]world.Event // pending delete events of bound pods of the custom kinds
	tf         world.PodSpec            // pod of a second scalable CRD kind that nothing has asked about yet (no informer started for it)
	rg         world.PodSpec            // a pod that requests IP ranges
	d1         world.PodSpec            // replacement pod of a deployment with a reserved IP
	zOld       []world.Event
	dpReserve  bool
	altConfig  string
	adoptReady bool
	releaseIPs func()
}

func c19Prepare(w *world.World) *c19Setup {
	s := &c19Setup{w: w}
	sts := wkClass{"sts", "never"}
	sts.setWorkload(w, 3)
	w.SetDeployment("ns", "d", 2)
	w.SetPoolObj("pl", 2)
	// a deployment (policy never) whose first pod is gone and handled: its IP is held under the app's reserve key, a replacement
	// pod is waiting
	dpc := wkClass{"dp", "never"}
	d0 := dpc.pod(0)
	w.CreatePod(d0)
	mustSchedule(w, d0.Key())
	w.DeletePod(d0.Key())
	for len(w.Pending) > 0 {
		w.Deliver(0)
	}
	s.d1 = dpc.pod(1)
	w.CreatePod(s.d1)
	s.x, s.y, s.z = sts.pod(0), sts.pod(1), sts.pod(2)
	w.CreatePod(s.x)
	w.CreatePod(s.y)
	w.CreatePod(s.z)
	w.AddCRD("TApp", "apps.tkestack.io", "v1", "tapps")
	s.tk = world.PodSpec{Name: "t-0", NS: "ns", OwnerKind: "TApp", OwnerName: "t", Policy: "immutable"}
	s.tu = world.PodSpec{Name: "f-0", NS: "ns", OwnerKind: "Frob", OwnerName: "f", Policy: "immutable"}
	w.CreatePod(s.tk)
	w.CreatePod(s.tu)
	w.AddCRD("TJob", "apps.tkestack.io", "v1", "tjobs")
	s.tf = world.PodSpec{Name: "j-0", NS: "ns", OwnerKind: "TJob", OwnerName: "j", Policy: "immutable"}
	w.CreatePod(s.tf)
	s.rg = world.PodSpec{Name: "r-0", NS: "ns", OwnerKind: "StatefulSet", OwnerName: "r", Ranges: `[["10.10.1.1~10.10.1.2","10.10.2.1~10.10.2.2"]]`}
	w.SetStatefulSet("ns", "r", 1)
	w.CreatePod(s.rg)
	_, _ = w.Filter(s.tk.Key()) // warms the CRD key cache for the known kind
	mustSchedule(w, s.z.Key())
	_, _ = w.Filter(s.y.Key()) // y is filtered, its Bind is one of the concurrent entry points
	w.DeletePod(s.z.Key())
	s.zOld = takePending(w)
	w.CreatePod(s.z) // z is re-created under its name: its old incarnation's events are still to be handled
	s.altConfig = "[" + poolJSON([]string{"10.0.1.0/24"}, []string{"10.10.1.1~10.10.1.3"}, "10.10.1.0/24", "10.10.1.254", 0) + "," +
		poolJSON([]string{"10.0.2.0/24"}, []string{"10.10.2.1~10.10.2.2"}, "10.10.2.0/24", "10.10.2.254", 2) + "]"
	return s
}

// c19PrepareCRDUnbind: pods of both custom kinds are bound and deleted: handling their delete events asks the CRD cache for the
// replicas of their apps (for TApp it has been asked before, for TJob never). Only scenarios with an unbind-crd entry set
// this up: the cache starts a real dynamic informer per kind, which takes its time in every execution.
func c19PrepareCRDUnbind(w *world.World, s *c19Setup) {
	s.crdOld = map[string][]world.Event{}
	for _, ps := range []world.PodSpec{{Name: "t-1", NS: "ns", OwnerKind: "TApp", OwnerName: "t", Policy: "immutable"}, {Name: "j-1", NS: "ns", OwnerKind: "TJob", OwnerName: "j", Policy: "immutable"}} {
		w.CreatePod(ps)
		if _, err := w.Schedule(ps.Key()); err != nil {
			continue
		}
		takePending(w)
		w.DeletePod(ps.Key())
		s.crdOld[ps.OwnerKind] = takePending(w)
	}
	if evs := s.crdOld["TApp"]; len(evs) > 0 {
		// warm the cache for TApp with the delete event of a further pod
		ps := world.PodSpec{Name: "t-2", NS: "ns", OwnerKind: "TApp", OwnerName: "t", Policy: "immutable"}
		w.CreatePod(ps)
		if _, err := w.Schedule(ps.Key()); err == nil {
			takePending(w)
			w.DeletePod(ps.Key())
			deliverAll(w, takePending(w))()
		}
	}
}

// c19Entries returns the entry points by name.
func c19Entries(s *c19Setup) map[string]func() {
	w := s.w
	py := w.Pods[s.y.Key()]
	px := w.Pods[s.x.Key()].DeepCopy()
	return map[string]func(){
		"filter": func() { _, _ = w.Filter(s.x.Key()) },
		// a filter for the re-created z, whose IP is still held under its key by the old incarnation
		"filter-z": func() { _, _ = w.Filter(s.z.Key()) },
		// the replacement pod of the deployment is filtered: the reserved IP is re-keyed to it (under the app's lock, not the
		// lock of the reserve key the release API takes)
		"filter-dp-replacement": func() { _, _ = w.Filter(s.d1.Key()) },
		// a filter for a pod that requests ranges (walks the ranges under the table lock)
		"filter-ranges": func() { _, _ = w.Filter(s.rg.Key()) },
		// Preempt runs without the pod's lock: for the re-created z it reads the entries its old incarnation's events write
		"preempt-z": func() { w.Preempt(s.z.Key()) },
		// a filter for the pod whose bind is another entry point (the scheduler filtering it again)
		"filter-y": func() { _, _ = w.Filter(s.y.Key()) },
		// pods of custom workload kinds: the release-policy check asks the CRD key cache (hit for the known kind; a kind
		// no CRD describes is never cached and re-populates the cache on every request)
		"filter-crd-known":   func() { _, _ = w.Filter(s.tk.Key()) },
		"filter-crd-unknown": func() { _, _ = w.Filter(s.tu.Key()) },
		// the first request ever for a kind a CRD describes: its key is cached and its informer started
		"filter-crd-fresh": func() { _, _ = w.Filter(s.tf.Key()) },
		"unbind-crd-known": func() { deliverAll(w, s.crdOld["TApp"])() },
		"unbind-crd-fresh": func() { deliverAll(w, s.crdOld["TJob"])() },
		"bind":             func() { _ = w.Bind("ns", s.y.Name, string(py.UID), "n1") },
		"unbind":           func() { deliverAll(w, s.zOld)() },
		"resync":           func() { _ = w.Resync(); w.SyncPodIPs() },
		"release":          func() { _, l := w.APIList("size=100"); w.APIRelease(l.Content) },
		"list":             func() { _, _ = w.APIList("keyword=a&size=2&page=1") },
		"pool":             func() { w.PoolPost("pl", 2, true) },
		"reload":           func() { w.ConfigMap = s.altConfig; _ = w.Reload() },
		"collect": func() {
			ch := make(chan prometheus.Metric, 64)
			w.Plugin.GetIpam().Collect(ch)
		},
		"preempt": func() { w.Preempt(s.x.Key()) },
		// the pod-IP sync adopts the address of a running pod whose record is missing (AllocateSpecificIP from the pod's annotation)
		"adopt": func() { w.SyncPodIPs() },
		"fipevents": func() {
			_ = w.Reserve("10.10.2.2")
			_ = w.Unreserve("10.10.2.2")
			for len(w.Pending) > 0 {
				w.Deliver(0)
			}
		},
		// a bind that misses the node-subnet cache (the cache was reset by a configuration change after the filter)
		"bind-cache-miss": func() { _ = w.Bind("ns", s.y.Name, string(py.UID), "n1b") },
		"update-running": func() {
			p := px.DeepCopy()
			q := p.DeepCopy()
			q.Status.Phase = corev1.PodRunning
			_ = w.Plugin.UpdatePod(p, q)
		},
	}
}

func c19IPAMScenarios(tier string) []*Scenario {
	names := []string{"filter", "bind", "unbind", "resync", "release", "list", "pool", "reload", "collect", "preempt", "fipevents", "bind-cache-miss", "update-running"}
	b := map[string]int{"preempt": 2}
	if tier == "thorough" {
		b = map[string]int{"preempt": 3}
	}
	mk := func(sel []string) *Scenario {
		sel = append([]string{}, sel...)
		return &Scenario{Name: "ipam/" + strings.Join(sel, "||"), Class: "ipam", Cfg: cfgTwoPools(true), Bounds: b, Weight: len(sel),
			Build: func(w *world.World) []Thread {
				s := c19Prepare(w)
				for _, n := range sel {
					if strings.HasPrefix(n, "unbind-crd") && s.crdOld == nil {
						c19PrepareCRDUnbind(w, s)
					}
					if n == "adopt" && !s.adoptReady {
						s.adoptReady = true
						q := world.PodSpec{Name: "q-0", NS: "ns", OwnerKind: "StatefulSet", OwnerName: "q"}
						w.SetStatefulSet("ns", "q", 1)
						w.CreatePod(q)
						mustSchedule(w, q.Key())
						w.SetPhase(q.Key(), corev1.PodRunning)
						takePending(w)
						if infos, err := w.Plugin.GetIpam().ByPrefix("sts_ns_q_q-0"); err == nil {
							for _, e := range infos {
								_ = w.Plugin.GetIpam().Release(e.Key, e.FloatingIP.IP)
							}
						}
					}
					if n == "bind-cache-miss" {
						// reset the node-subnet cache after y was filtered: same pools, other text
						w.ConfigMap = strings.Replace(w.ConfigMap, `"vlan":2`, `"vlan":3`, 1)
						_ = w.Reload()
					}
				}
				e := c19Entries(s)
				var ths []Thread
				for i, n := range sel {
					ths = append(ths, Thread{fmt.Sprintf("%s#%d", n, i), e[n]})
				}
				return ths
			}}
	}
	var out []*Scenario
	for i := range names {
		for j := i; j < len(names); j++ {
			if names[i] == names[j] && (names[i] == "reload" || names[i] == "resync" || names[i] == "bind" || names[i] == "bind-cache-miss" || names[i] == "unbind") {
				continue // at most one reload and one resync routine exist; bind/unbind of one pod are serialised by the scheduler
			}
			if (names[i] == "bind" && names[j] == "bind-cache-miss") || (names[j] == "bind" && names[i] == "bind-cache-miss") {
				continue
			}
			out = append(out, mk([]string{names[i], names[j]}))
		}
	}
	for _, pr := range [][]string{{"filter-dp-replacement", "release"}, {"filter-dp-replacement", "resync"}, {"filter-dp-replacement", "list"}, {"filter-ranges", "bind"}, {"filter-ranges", "unbind"}, {"filter-ranges", "reload"}, {"filter-ranges", "release"}, {"filter-ranges", "filter-ranges"}, {"preempt-z", "unbind"}, {"preempt-z", "resync"}, {"preempt-z", "release"}, {"preempt-z", "reload"}, {"filter-z", "unbind"}, {"filter-z", "resync"}, {"filter-z", "release"}, {"filter-y", "bind"}, {"filter-y", "update-running"}, {"filter-crd-known", "filter-crd-unknown"}, {"filter-crd-unknown", "filter-crd-unknown"}, {"filter-crd-known", "filter-crd-known"},
		{"filter-crd-unknown", "resync"}, {"filter-crd-known", "reload"}, {"filter-crd-unknown", "bind"},
		{"filter-crd-known", "filter-crd-fresh"}, {"filter-crd-fresh", "filter-crd-fresh"}, {"filter-crd-fresh", "filter-crd-unknown"},
		{"unbind-crd-known", "unbind-crd-fresh"}, {"unbind-crd-fresh", "filter-crd-known"},
		{"adopt", "list"}, {"adopt", "collect"}, {"adopt", "filter"}, {"adopt", "release"}, {"adopt", "fipevents"}, {"adopt", "preempt"}} {
		out = append(out, mk(pr))
	}
	triples := [][]string{{"filter", "bind", "unbind"}, {"filter-crd-known", "filter-crd-unknown", "filter-crd-known"}, {"filter", "resync", "reload"}, {"bind", "release", "resync"}, {"pool", "filter", "preempt"}, {"reload", "collect", "bind"},
		{"fipevents", "filter", "reload"}, {"bind-cache-miss", "filter", "preempt"}, {"unbind", "release", "list"}}
	for _, t := range triples {
		sc := mk(t)
		if tier != "thorough" {
			sc.Bounds = map[string]int{"preempt": 1}
		}
		out = append(out, sc)
	}
	return out
}

func oracleNone(w *world.World, s *coop.Sched, final bool) *Finding { return nil }

func init() {
	register(&Property{ID: "C19", Level: "exploration", QuickS: 150, ThoroughS: 1200,
		Assume: append([]string{"happens-before monitor inside the cooperative scheduler: vector clocks per thread, release->acquire edges from the sync/keymutex shims, spawn edges; monitored locations are the shared fields named in the property " +
			"(allocation tables and pool list, node-subnet cache, last configuration text, CRD key/informer caches, per-network configuration maps incl. the maps handed to requests, host-port table, policy list), instrumented syntactically by field name",
			"accesses through local aliases of those maps and memory outside the listed fields are not monitored; the Go memory model below sequential consistency is not modelled"}, assumeIPAM...),
		Rule: "all pairs (and 9 triples) of 13 galaxy-ipam entry points plus pairs with filters for pods of custom (CRD) workload kinds, on one shared plugin instance, and concurrent CNI requests / policy events on one galaxy daemon instance; stateless DFS over all schedules within the preemption bound with the happens-before monitor on in every execution; " +
			"a reported race, a deadlock or a panic is a violation; distinct = distinct final states; non-trivial = at least two threads wrote; auxiliary (not exhaustive, not counted in the evaluations): the same bodies free-running in a binary built with Go's race detector, reports kept when both accesses are in galaxy code",
		Jobs: func(tier string) []Job {
			var jobs []Job
			for _, sc := range c19IPAMScenarios(tier) {
				jobs = append(jobs, ExploreJob("C19", sc, oracleNone))
			}
			jobs = append(jobs, c19DaemonJobs(tier)...)
			return append(jobs, c19RaceJob(tier))
		}})
	replayers["C19"] = func(tier string, v coop.Violation) int {
		return replayExplore("C19", c19IPAMScenarios(tier), oracleNone, v)
	}
}
