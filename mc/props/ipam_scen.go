package props

import (
	"fmt"
	"strings"

	corev1 "k8s.io/api/core/v1"
	"tkestack.io/galaxy/pkg/ipam/api"

	"verif.local/mc/world"
)

// Pool configurations -------------------------------------------------------------------------

func poolJSON(nodeSubnets []string, ips []string, subnet, gw string, vlan int) string {
	q := func(l []string) string { return `["` + strings.Join(l, `","`) + `"]` }
	return fmt.Sprintf(`{"nodeSubnets":%s,"ips":%s,"subnet":"%s","gateway":"%s","vlan":%d}`, q(nodeSubnets), q(ips), subnet, gw, vlan)
}

var (
	nodesN1   = []world.NodeSpec{{Name: "n1", IP: "10.0.1.11"}, {Name: "n1b", IP: "10.0.1.12"}}
	nodesN1N2 = []world.NodeSpec{{Name: "n1", IP: "10.0.1.11"}, {Name: "n1b", IP: "10.0.1.12"}, {Name: "n2", IP: "10.0.2.11"}}
)

// cfgOnePool: one pool on node subnet N1 with k IPs 10.10.1.1..k.
func cfgOnePool(k int, cloud bool) world.Config {
	ips := "10.10.1.1"
	if k > 1 {
		ips = fmt.Sprintf("10.10.1.1~10.10.1.%d", k)
	}
	return world.Config{Pools: "[" + poolJSON([]string{"10.0.1.0/24"}, []string{ips}, "10.10.1.0/24", "10.10.1.254", 0) + "]",
		Nodes: nodesN1, Cloud: cloud}
}

// cfgTwoPools: pool A (2 IPs) on N1, pool B (2 IPs) on N2.
func cfgTwoPools(cloud bool) world.Config {
	return world.Config{Pools: "[" +
		poolJSON([]string{"10.0.1.0/24"}, []string{"10.10.1.1~10.10.1.2"}, "10.10.1.0/24", "10.10.1.254", 0) + "," +
		poolJSON([]string{"10.0.2.0/24"}, []string{"10.10.2.1~10.10.2.2"}, "10.10.2.0/24", "10.10.2.254", 2) + "]",
		Nodes: nodesN1N2, Cloud: cloud}
}

// Workload classes ----------------------------------------------------------------------------

type wkClass struct {
	Kind   string // sts, dp, dppool, bare
	Policy string // "", immutable, never
}

func (c wkClass) String() string {
	p := c.Policy
	if p == "" {
		p = "default"
	}
	return c.Kind + "/" + p
}

// pod returns the i-th pod identity of the class's workload.
func (c wkClass) pod(i int) world.PodSpec {
	switch c.Kind {
	case "sts":
		return world.PodSpec{Name: fmt.Sprintf("a-%d", i), NS: "ns", OwnerKind: "StatefulSet", OwnerName: "a", Policy: c.Policy}
	case "dp":
		return world.PodSpec{Name: fmt.Sprintf("d-r1-%c", 'x'+rune(i)), NS: "ns", OwnerKind: "ReplicaSet", OwnerName: "d-r1", Policy: c.Policy}
	case "dppool":
		return world.PodSpec{Name: fmt.Sprintf("d-r1-%c", 'x'+rune(i)), NS: "ns", OwnerKind: "ReplicaSet", OwnerName: "d-r1", Policy: c.Policy, Pool: "pl"}
	case "bare":
		return world.PodSpec{Name: fmt.Sprintf("b-%d", i), NS: "ns", Policy: c.Policy}
	case "stspool":
		// statefulset pods that use a named IP pool (the pool annotation means policy never; the IP stays with the pod's identity)
		return world.PodSpec{Name: fmt.Sprintf("a-%d", i), NS: "ns", OwnerKind: "StatefulSet", OwnerName: "a", Policy: c.Policy, Pool: "pl"}
	case "ststwin":
		// two statefulsets with the same name in two namespaces: pod 0 is ns/a-1, pod 1 is ns2/a-1
		ns := "ns"
		if i%2 == 1 {
			ns = "ns2"
		}
		return world.PodSpec{Name: "a-1", NS: ns, OwnerKind: "StatefulSet", OwnerName: "a", Policy: c.Policy}
	case "dppoolu":
		// deployment pods in a pool whose (free-text) name contains the key separator
		return world.PodSpec{Name: fmt.Sprintf("d-r1-%c", 'x'+rune(i)), NS: "ns", OwnerKind: "ReplicaSet", OwnerName: "d-r1", Policy: c.Policy, Pool: "p_l"}
	case "stspfx":
		// statefulset pods whose names (and therefore keys) are in a prefix relation: a-1 and a-10
		return world.PodSpec{Name: []string{"a-1", "a-10"}[i%2], NS: "ns", OwnerKind: "StatefulSet", OwnerName: "a", Policy: c.Policy}
	case "barepfx":
		return world.PodSpec{Name: []string{"b-1", "b-10"}[i%2], NS: "ns", Policy: c.Policy}
	case "stsmulti":
		// statefulset pods requesting two IPs each (two single-address ranges of one pool of the two-pool topology)
		r := `[["10.10.1.1"],["10.10.1.2"]]`
		if i%2 == 1 {
			r = `[["10.10.2.1"],["10.10.2.2"]]`
		}
		return world.PodSpec{Name: fmt.Sprintf("a-%d", i), NS: "ns", OwnerKind: "StatefulSet", OwnerName: "a", Policy: c.Policy, Ranges: r}
	}
	panic("class")
}

func (c wkClass) setWorkload(w *world.World, replicas int) {
	switch c.Kind {
	case "ststwin":
		// scale / delete-app act on ns/a; its namesake ns2/a keeps two replicas
		w.SetStatefulSet("ns", "a", replicas)
		w.SetStatefulSet("ns2", "a", 2)
	case "sts", "stsmulti", "stspool", "stspfx":
		w.SetStatefulSet("ns", "a", replicas)
	case "dp", "dppool", "dppoolu":
		w.SetDeployment("ns", "d", replicas)
	}
}

var (
	stsBareClasses = []wkClass{{"sts", ""}, {"sts", "immutable"}, {"sts", "never"}, {"bare", ""}, {"bare", "never"}}
	dpClasses      = []wkClass{{"dp", ""}, {"dp", "immutable"}, {"dp", "never"}, {"dppool", ""}, {"dppool", "never"}}
)

// helpers -------------------------------------------------------------------------------------

// scheduleRetry plays kube-scheduler for one pod: Filter;Bind, retried up to n times on failure.
func scheduleRetry(w *world.World, key string, n int) func() {
	return func() {
		for i := 0; i < n; i++ {
			if w.Pods[key] == nil {
				return
			}
			if _, err := w.Schedule(key); err == nil {
				return
			}
		}
	}
}

func deliverAll(w *world.World, evs []world.Event) func() {
	return func() {
		for _, ev := range evs {
			w.DeliverEvent(ev)
		}
	}
}

// takePending removes and returns all pending events.
func takePending(w *world.World) []world.Event {
	evs := w.Pending
	w.Pending = nil
	return evs
}

// quiesce delivers everything pending and runs one resync pass.
func quiesce(w *world.World) {
	for len(w.Pending) > 0 {
		w.Deliver(0)
	}
	_ = w.Resync()
}

func mustSchedule(w *world.World, key string) {
	if _, err := w.Schedule(key); err != nil {
		panic(fmt.Sprintf("setup: schedule %s: %v", key, err))
	}
}

// Scenario families ---------------------------------------------------------------------------

// famRecreate (S1): incarnation A of a pod is bound, then finished and/or deleted, and a same-named
// incarnation B is created. Concurrent: A's events, kube-scheduler for B, a resync pass.
func famRecreate(cloud bool, bounds map[string]int, extraThread string) []*Scenario {
	var out []*Scenario
	for _, c := range stsBareClasses {
		for _, variant := range []string{"delete", "finish+delete"} {
			c, variant := c, variant
			name := fmt.Sprintf("recreate/%s/%s", c, variant)
			if extraThread != "" {
				name += "+" + extraThread
			}
			out = append(out, &Scenario{Name: name, Class: c.String(), Cfg: cfgOnePool(2, cloud), Bounds: bounds, Weight: 3,
				Build: func(w *world.World) []Thread {
					c.setWorkload(w, 1)
					p := c.pod(0)
					w.CreatePod(p)
					mustSchedule(w, p.Key())
					w.SetPhase(p.Key(), corev1.PodRunning)
					takePending(w) // the running update was handled long ago
					if variant == "finish+delete" {
						w.SetPhase(p.Key(), corev1.PodSucceeded)
					}
					w.DeletePod(p.Key())
					old := takePending(w)
					w.CreatePod(p) // incarnation B
					ths := []Thread{
						{"deliver-old", deliverAll(w, old)},
						{"sched-new", scheduleRetry(w, p.Key(), 2)},
						{"resync", func() { _ = w.Resync() }},
					}
					switch extraThread {
					case "split":
						// the release loop hands every event to a goroutine of its own: the two events of the old incarnation
						// (finished, deleted) are handled concurrently with each other and with the new incarnation's scheduling
						ths = []Thread{{"sched-new", scheduleRetry(w, p.Key(), 2)}}
						for i := range old {
							ths = append(ths, Thread{fmt.Sprintf("deliver-old-%d", i), deliverAll(w, old[i:i+1])})
						}
					case "other":
						// a different pod that wants an IP from the same (two-address) pool at the same time
						o := wkClass{"sts", ""}.pod(7)
						w.SetStatefulSet("ns", "a", 8)
						w.CreatePod(o)
						// three threads: resync | old incarnation's events followed by the new incarnation's scheduling | the other pod
						ths = []Thread{
							{"resync", func() { _ = w.Resync() }},
							{"deliver-old+sched-new", func() { deliverAll(w, old)(); scheduleRetry(w, p.Key(), 2)() }},
							{"sched-other", scheduleRetry(w, o.Key(), 1)},
						}
					case "syncpodips":
						ths = append(ths, Thread{"syncpodips", func() { w.SyncPodIPs() }})
					case "run-new":
						ths = append(ths, Thread{"kubelet-new", func() {
							if pod := w.Pods[p.Key()]; pod != nil && pod.Spec.NodeName != "" {
								w.SetPhase(p.Key(), corev1.PodRunning)
								for len(w.Pending) > 0 {
									w.Deliver(0)
								}
							}
						}})
					}
					return ths
				},
				Final: func(w *world.World) {
					quiesce(w)
					if extraThread == "split" {
						// two further pods ask for the remaining addresses: an address taken from the live incarnation is handed out again
						w.SetStatefulSet("ns", "o", 2)
						for i := 0; i < 2; i++ {
							o := world.PodSpec{Name: fmt.Sprintf("o-%d", i), NS: "ns", OwnerKind: "StatefulSet", OwnerName: "o"}
							w.CreatePod(o)
							scheduleRetry(w, o.Key(), 1)()
						}
					}
				},
			})
		}
	}
	return out
}

// famContend (S2): two pods compete for the last free IP while a third pod's IP is being released.
func famContend(cloud bool, bounds map[string]int) []*Scenario {
	var out []*Scenario
	for _, c := range []wkClass{{"sts", ""}, {"sts", "immutable"}, {"dp", ""}} {
		c := c
		out = append(out, &Scenario{Name: "contend/" + c.String(), Class: c.String(), Cfg: cfgOnePool(2, cloud), Bounds: bounds, Weight: 3,
			Build: func(w *world.World) []Thread {
				c.setWorkload(w, 3)
				p0, p1, p2 := c.pod(0), c.pod(1), c.pod(2)
				w.CreatePod(p2)
				mustSchedule(w, p2.Key())
				w.DeletePod(p2.Key())
				old := takePending(w)
				c.setWorkload(w, 2)
				w.CreatePod(p0)
				w.CreatePod(p1)
				return []Thread{
					{"sched-p0", scheduleRetry(w, p0.Key(), 2)},
					{"sched-p1", scheduleRetry(w, p1.Key(), 2)},
					{"deliver-old", deliverAll(w, old)},
				}
			},
			Final: quiesce,
		})
	}
	return out
}

// famRolling (S3): a deployment pod is replaced by a differently named one (rolling update).
func famRolling(cloud bool, bounds map[string]int) []*Scenario {
	var out []*Scenario
	for _, c := range dpClasses {
		c := c
		out = append(out, &Scenario{Name: "rolling/" + c.String(), Class: c.String(), Cfg: cfgOnePool(2, cloud), Bounds: bounds, Weight: 3,
			Build: func(w *world.World) []Thread {
				c.setWorkload(w, 1)
				po, pn := c.pod(0), c.pod(1)
				w.CreatePod(po)
				mustSchedule(w, po.Key())
				w.DeletePod(po.Key())
				old := takePending(w)
				w.CreatePod(pn)
				return []Thread{
					{"deliver-old", deliverAll(w, old)},
					{"sched-new", scheduleRetry(w, pn.Key(), 2)},
					{"resync", func() { _ = w.Resync() }},
				}
			},
			Final: quiesce,
		})
	}
	return out
}

// famTwoDeletes: an immutable deployment is scaled down by one and two of its pods are deleted; their delete events are
// handled concurrently (the release loop starts one goroutine per event). Exactly one IP may be released: the replacement
// pod scheduled afterwards must take the other one from the reserve.
func famTwoDeletes(cloud bool, bounds map[string]int) []*Scenario {
	var out []*Scenario
	for _, c := range []wkClass{{"dp", "immutable"}} {
		c := c
		out = append(out, &Scenario{Name: "two-deletes/" + c.String(), Class: c.String(), Cfg: cfgOnePool(4, cloud), Bounds: bounds, Weight: 3,
			Build: func(w *world.World) []Thread {
				c.setWorkload(w, 3)
				var evs [][]world.Event
				var ips []string
				for i := 0; i < 3; i++ {
					w.CreatePod(c.pod(i))
					mustSchedule(w, c.pod(i).Key())
				}
				c.setWorkload(w, 2)
				for i := 0; i < 2; i++ {
					ips = append(ips, w.Bindings[i].IPs...)
					w.DeletePod(c.pod(i).Key())
					evs = append(evs, takePending(w))
				}
				repl := c.pod(0)
				repl.Name = "d-r1-w"
				w.CreatePod(repl)
				if w.MustKeep == nil {
					w.MustKeep = map[string]string{}
				}
				w.MustKeep["replacement:"+repl.Key()] = strings.Join(ips, ",")
				return []Thread{
					{"deliver-a", deliverAll(w, evs[0])},
					{"deliver-b", deliverAll(w, evs[1])},
				}
			},
			Final: func(w *world.World) {
				quiesce(w)
				// two replicas: the surviving pod's IP and one IP in reserve (a fresh allocation for the replacement could pick the
				// very address that was released, so the reserve itself is looked at before the replacement is scheduled)
				held := 0
				for _, st := range w.MemDump() {
					if st.Alloc && strings.HasPrefix(st.Key, "dp_ns_d_") {
						held++
					}
				}
				if held != 2 {
					w.MustKeep["violation"] = fmt.Sprintf("after both delete events the deployment (2 replicas, one live pod) holds %d IPs instead of 2: %v", held, allocOnly(w.MemDump()))
				}
				scheduleRetry(w, "ns/d-r1-w", 2)()
			},
		})
	}
	return out
}

// famLateRunningEvent: the "running" notification of incarnation A (which makes the plugin sync the pod's IP into its tables) is
// handled while A is being deleted, its delete event handled and a same-named incarnation B created and bound. A holds the
// higher of two addresses, so that B is given the other one.
func famLateRunningEvent(cloud bool, bounds map[string]int) []*Scenario {
	var out []*Scenario
	for _, c := range []wkClass{{"sts", ""}, {"sts", "immutable"}, {"bare", ""}} {
		c := c
		out = append(out, &Scenario{Name: "late-running-event/" + c.String(), Class: c.String(), Cfg: cfgOnePool(2, cloud), Bounds: bounds, Weight: 3,
			Build: func(w *world.World) []Thread {
				c.setWorkload(w, 8)
				// a placeholder takes the first address and gives it back once A has the second one
				ph := wkClass{"bare", ""}.pod(5)
				w.CreatePod(ph)
				mustSchedule(w, ph.Key())
				p := c.pod(0)
				w.CreatePod(p)
				mustSchedule(w, p.Key())
				w.DeletePod(ph.Key())
				deliverAll(w, takePending(w))()
				w.SetPhase(p.Key(), corev1.PodRunning)
				running := takePending(w)
				return []Thread{
					{"deliver-running", deliverAll(w, running)},
					{"delete+recreate", func() {
						w.DeletePod(p.Key())
						deliverAll(w, takePending(w))()
						w.CreatePod(p)
						scheduleRetry(w, p.Key(), 2)()
					}},
				}
			},
			Final: quiesce,
		})
	}
	return out
}

// famReloadReplacement: the only pod of a reserving deployment has been deleted (its IP is in reserve) and its replacement is
// scheduled while a configuration with one more address is loaded: the replacement must take the reserved IP.
func famReloadReplacement(bounds map[string]int) []*Scenario {
	var out []*Scenario
	for _, c := range []wkClass{{"dp", "immutable"}, {"dp", "never"}, {"dppool", ""}} {
		c := c
		out = append(out, &Scenario{Name: "reload-vs-replacement/" + c.String(), Class: c.String(), Cfg: cfgOnePool(3, false), Bounds: bounds, Weight: 3,
			Build: func(w *world.World) []Thread {
				c.setWorkload(w, 1)
				w.CreatePod(c.pod(0))
				mustSchedule(w, c.pod(0).Key())
				ips := strings.Join(w.Bindings[0].IPs, ",")
				w.DeletePod(c.pod(0).Key())
				deliverAll(w, takePending(w))()
				repl := c.pod(0)
				repl.Name = "d-r1-w"
				w.CreatePod(repl)
				w.MustKeep = map[string]string{"replacement:" + repl.Key(): ips}
				return []Thread{
					{"sched-replacement", scheduleRetry(w, repl.Key(), 2)},
					{"reload", func() { w.ConfigMap = cfgOnePool(4, false).Pools; _ = w.Reload() }},
				}
			},
			Final: func(w *world.World) {
				quiesce(w)
				held := 0
				for _, st := range w.MemDump() {
					if st.Alloc && (strings.HasPrefix(st.Key, "dp_ns_d_") || strings.HasPrefix(st.Key, "pool__pl_")) {
						held++
					}
				}
				if held != 1 {
					w.MustKeep["violation"] = fmt.Sprintf("one replica, one live pod, but the deployment holds %d IPs: %v", held, allocOnly(w.MemDump()))
				}
			},
		})
	}
	return out
}

// famLagReplacement: the replacement pod of a reserving deployment exists in the API server but not yet in galaxy-ipam's pod
// informer cache; it is scheduled (kube-scheduler hands the pod object over itself) next to a resync pass.
func famLagReplacement(bounds map[string]int) []*Scenario {
	var out []*Scenario
	for _, c := range []wkClass{{"dp", "immutable"}, {"dp", "never"}, {"dppool", ""}} {
		c := c
		cfg := cfgOnePool(3, false)
		cfg.Lag = true
		out = append(out, &Scenario{Name: "lagging-cache-vs-replacement/" + c.String(), Class: c.String(), Cfg: cfg, Bounds: bounds, Weight: 3,
			Build: func(w *world.World) []Thread {
				c.setWorkload(w, 1)
				w.CreatePod(c.pod(0))
				w.SyncAllPodCaches()
				mustSchedule(w, c.pod(0).Key())
				ips := strings.Join(w.Bindings[0].IPs, ",")
				w.DeletePod(c.pod(0).Key())
				w.SyncAllPodCaches()
				deliverAll(w, takePending(w))()
				repl := c.pod(0)
				repl.Name = "d-r1-w"
				w.CreatePod(repl) // in the API server; the informer cache has not caught up
				w.MustKeep = map[string]string{"replacement:" + repl.Key(): ips}
				return []Thread{
					{"sched-replacement", scheduleRetry(w, repl.Key(), 2)},
					{"resync", func() { _ = w.Resync() }},
					{"cache-sync", func() { w.SyncAllPodCaches() }},
				}
			},
			Final: func(w *world.World) { w.SyncAllPodCaches(); quiesce(w) },
		})
	}
	return out
}

// famAPIRelease (S5): an administrator posts a listed entry back to the release API while the
// scheduler works on the pod that is entitled to the IP.
func famAPIRelease(cloud bool, bounds map[string]int) []*Scenario {
	var out []*Scenario
	// (a) reserve entry of a deployment (policy never / immutable) vs. the replacement pod's filter+bind
	for _, c := range []wkClass{{"dp", "never"}, {"dp", "immutable"}, {"dppool", "never"}} {
		c := c
		out = append(out, &Scenario{Name: "apirelease-reserve/" + c.String(), Class: c.String(), Cfg: cfgOnePool(2, cloud), Bounds: bounds, Weight: 2,
			Build: func(w *world.World) []Thread {
				c.setWorkload(w, 1)
				po, pn := c.pod(0), c.pod(1)
				w.CreatePod(po)
				mustSchedule(w, po.Key())
				w.DeletePod(po.Key())
				quiesce(w) // old pod's IP is now held in reserve under the app/pool prefix
				_, list := w.APIList("keyword=d")
				w.CreatePod(pn)
				return []Thread{
					{"apirelease", func() { w.APIRelease(list.Content) }},
					{"sched-new", scheduleRetry(w, pn.Key(), 2)},
				}
			},
			Final: quiesce,
		})
	}
	// (b) entry of a deleted sts/bare pod (listed while it was gone) vs. the re-created pod's filter+bind
	for _, c := range []wkClass{{"sts", "immutable"}, {"sts", "never"}, {"bare", "never"}} {
		c := c
		out = append(out, &Scenario{Name: "apirelease-pod/" + c.String(), Class: c.String(), Cfg: cfgOnePool(2, cloud), Bounds: bounds, Weight: 2,
			Build: func(w *world.World) []Thread {
				c.setWorkload(w, 1)
				p := c.pod(0)
				w.CreatePod(p)
				mustSchedule(w, p.Key())
				w.DeletePod(p.Key())
				quiesce(w)
				_, list := w.APIList("keyword=" + p.Name)
				var entries []api.FloatingIP
				for _, e := range list.Content {
					entries = append(entries, e)
				}
				return []Thread{
					{"apirelease", func() { w.APIRelease(entries) }},
					{"recreate+sched", func() {
						w.CreatePod(p)
						scheduleRetry(w, p.Key(), 2)()
					}},
					{"resync", func() { _ = w.Resync() }},
				}
			},
			Final: quiesce,
		})
		// (b2) the release arrives while the old incarnation's delete event is still to be handled: the record it looks at first
		// (old uid) is not the record in force when it acts
		out = append(out, &Scenario{Name: "apirelease-pod+pending-delete/" + c.String(), Class: c.String(), Cfg: cfgOnePool(2, cloud), Bounds: bounds, Weight: 3,
			Build: func(w *world.World) []Thread {
				c.setWorkload(w, 1)
				p := c.pod(0)
				w.CreatePod(p)
				mustSchedule(w, p.Key())
				w.DeletePod(p.Key())
				old := takePending(w)
				_, list := w.APIList("keyword=" + p.Name)
				var entries []api.FloatingIP
				for _, e := range list.Content {
					entries = append(entries, e)
				}
				return []Thread{
					{"apirelease", func() { w.APIRelease(entries) }},
					{"deliver-old", deliverAll(w, old)},
					{"recreate+sched", func() {
						w.CreatePod(p)
						scheduleRetry(w, p.Key(), 2)()
					}},
				}
			},
			Final: quiesce,
		})
		// (c) the same with a third party instead of the resync: the only other IP of the pool is taken, so a pod of another
		// workload can only get an IP if the release really frees the identity's one
		out = append(out, &Scenario{Name: "apirelease-pod+other/" + c.String(), Class: c.String(), Cfg: cfgOnePool(2, cloud), Bounds: bounds, Weight: 3,
			Build: func(w *world.World) []Thread {
				c.setWorkload(w, 1)
				p := c.pod(0)
				o := world.PodSpec{Name: "o-0", NS: "ns", OwnerKind: "StatefulSet", OwnerName: "o"}
				w.SetStatefulSet("ns", "o", 1)
				w.CreatePod(p)
				mustSchedule(w, p.Key())
				w.DeletePod(p.Key())
				quiesce(w)
				for _, st := range w.MemDump() {
					if !st.Alloc {
						_ = preAllocate(w, st.IP, "sts_ns_bystander_bystander-0", "ub")
					}
				}
				_, list := w.APIList("keyword=" + p.Name)
				entries := append([]api.FloatingIP{}, list.Content...)
				w.CreatePod(o)
				return []Thread{
					{"apirelease", func() { w.APIRelease(entries) }},
					{"recreate+sched", func() {
						w.CreatePod(p)
						scheduleRetry(w, p.Key(), 2)()
					}},
					{"sched-other", scheduleRetry(w, o.Key(), 2)},
				}
			},
			Final: quiesce,
		})
	}
	return out
}

// famMove: one identity is scheduled, deleted and scheduled again (possibly on another node of the same subnet), each
// step retried after a provider failure; everything sequential in one thread plus a concurrent resync.
func famMove(bounds map[string]int) []*Scenario {
	var out []*Scenario
	for _, c := range []wkClass{{"sts", ""}, {"sts", "immutable"}, {"sts", "never"}, {"dp", "immutable"}, {"bare", "never"}} {
		c := c
		out = append(out, &Scenario{Name: "move/" + c.String(), Class: c.String(), Cfg: cfgOnePool(2, true), Bounds: bounds, Weight: 3,
			Build: func(w *world.World) []Thread {
				c.setWorkload(w, 1)
				p := c.pod(0)
				w.CreatePod(p)
				return []Thread{
					{"lifecycle", func() {
						scheduleRetry(w, p.Key(), 2)()
						w.DeletePod(p.Key())
						for len(w.Pending) > 0 {
							w.Deliver(0)
						}
						q := p
						if c.Kind == "dp" {
							q = c.pod(1)
						}
						w.CreatePod(q)
						scheduleRetry(w, q.Key(), 2)()
					}},
					{"resync", func() { _ = w.Resync() }},
				}
			},
			Final: quiesce,
		})
	}
	return out
}

// famLag: the recreate family with a lagging pod informer cache. The lister starts in one of three views of the re-created pod
// (still the old incarnation / nothing / the new incarnation) and catches up with the API server at a point chosen by the
// schedule (thread cache-sync).
func famLag(cloud bool, bounds map[string]int) []*Scenario {
	var out []*Scenario
	for _, c := range []wkClass{{"sts", ""}, {"sts", "immutable"}, {"bare", "never"}} {
		for _, view := range []string{"old", "none", "new"} {
			c, view := c, view
			cfg := cfgOnePool(2, cloud)
			cfg.Lag = true
			out = append(out, &Scenario{Name: fmt.Sprintf("lag/%s/lister-shows-%s", c, view), Class: c.String(), Cfg: cfg, Bounds: bounds, Weight: 4,
				Build: func(w *world.World) []Thread {
					c.setWorkload(w, 1)
					p := c.pod(0)
					w.CreatePod(p)
					w.SyncAllPodCaches()
					mustSchedule(w, p.Key())
					w.SyncAllPodCaches() // the lister knows incarnation A, bound
					w.DeletePod(p.Key())
					old := takePending(w)
					if view == "none" || view == "new" {
						w.SyncAllPodCaches()
					}
					w.CreatePod(p) // incarnation B in the API server
					if view == "new" {
						w.SyncAllPodCaches()
					}
					return []Thread{
						{"deliver-old", deliverAll(w, old)},
						{"sched-new", scheduleRetry(w, p.Key(), 3)},
						{"cache-sync", func() { w.SyncAllPodCaches() }},
						{"resync", func() { _ = w.Resync() }},
					}
				},
				Final: func(w *world.World) { w.SyncAllPodCaches(); quiesce(w) },
			})
		}
	}
	return out
}

// famRestartOverlap: a galaxy-ipam instance is replaced (restart, leader change) while the old one is still finishing a bind:
// the old instance's Bind of pod 0 runs concurrently with the new instance's start-up (ConfigurePool lists the store) and
// its scheduling of pod 1. Pools of one and two addresses.
func famRestartOverlap(cloud bool, bounds map[string]int) []*Scenario {
	var out []*Scenario
	for _, k := range []int{1, 2} {
		for _, c := range []wkClass{{"sts", ""}, {"sts", "never"}} {
			k, c := k, c
			out = append(out, &Scenario{Name: fmt.Sprintf("restart-overlap/%s/pool%d", c, k), Class: c.String(), Cfg: cfgOnePool(k, cloud), Bounds: bounds, Weight: 3,
				Build: func(w *world.World) []Thread {
					c.setWorkload(w, 2)
					p0, p1 := c.pod(0), c.pod(1)
					pod0 := w.CreatePod(p0)
					w.CreatePod(p1)
					_, _ = w.Filter(p0.Key())
					old := w.Plugin
					w.TwoInstances = true
					return []Thread{
						{"old-instance-bind", func() { _ = w.BindWith(old, "ns", p0.Name, string(pod0.UID), "n1") }},
						{"new-instance", func() {
							if err := w.Restart(); err != nil {
								return
							}
							scheduleRetry(w, p1.Key(), 2)()
						}},
					}
				},
				Final: func(w *world.World) { _ = w.Restart(); w.TwoInstances = false; quiesce(w) },
			})
		}
	}
	return out
}
