package props

import (
	"fmt"
	"strings"
	"time"

	"verif.local/mc/nfsim"
)

// C15, failing commands: a full synchronisation during which one ipset / iptables command fails (every command index k),
// followed by the next periodic synchronisation: the galaxy-owned state must then be the one a fresh sync of the cluster
// gives ("regardless of what galaxy rules and sets existed before" includes what a half-done sync left), and foreign objects
// are untouched throughout.

func c15FaultJob(shard, nshards int, tier string) Job {
	name := fmt.Sprintf("sync-with-failing-command/shard%d", shard)
	return Job{Name: name, Weight: 2, Run: func(deadline time.Time) *ScenResult {
		t0 := time.Now()
		r := newCaseResult()
		all := c15States(tier)
		// from a handful of "before" states to every "after" state
		var befores []int
		for i, s := range all {
			if strings.Contains(s.Name, "pods=[web db cli2] policies=[]") || strings.Contains(s.Name, "pods=[web db cli2] policies=[in-podsel eg-podsel-port]") ||
				strings.Contains(s.Name, "pods=[web db cli2] policies=[in-two-peers in-denyall]") || strings.Contains(s.Name, "pods=[] policies=[]") {
				befores = append(befores, i)
			}
		}
		n, transitions := 0, 0
		for _, bi := range befores {
			for ai := range all {
				n++
				if n%nshards != shard {
					continue
				}
				if time.Now().After(deadline) {
					r.exhausted = false
					sr := r.toScen(name, t0, nil)
					sr.Transitions = transitions
					return sr
				}
				want := freshState(all[ai].C)
				live := livePodChainNames(all[ai].C)
				ips := map[string]bool{}
				for _, p := range all[ai].C.Pods {
					ips[p.IP] = true
				}
				build := func() (*nfsim.Kernel, *policyWorld) {
					k := nfsim.New()
					seedFilter(k, "foreign")
					w := newPolicyWorld(k)
					w.setCluster(all[bi].C)
					w.pm.Run()
					w.setCluster(all[ai].C)
					return k, w
				}
				k, w := build()
				foreign0 := glxOf(k).Foreign
				k.ResetFault(0)
				w.pm.Run()
				ncmd := k.Count()
				for f := 1; f <= ncmd; f++ {
					k, w := build()
					k.ResetFault(f)
					w.pm.Run()
					k.ResetFault(0)
					w.pm.Run()
					transitions += 2
					r.evals++
					desc := fmt.Sprintf("before: %s\n    after:  %s\n    command %d of %d of the sync fails, then the next sync", all[bi].Name, all[ai].Name, f, ncmd)
					s1 := glxOf(k)
					r.distinct[hashOf(bi, ai, f, s1.String())] = true
					if len(r.samples) < 3 && r.evals%977 == 1 {
						r.samples = append(r.samples, desc)
					}
					if s1.Foreign != foreign0 {
						r.violate("C15", name, "faults", "foreign-objects-modified", "Run", desc, []string{desc})
					}
					d := c15Compare(s1, want, live, ips)
					if len(d.other) > 0 || len(d.staleReferencedPolicyChains) > 0 {
						r.violate("C15", name, "faults", "no-convergence-after-a-failed-sync", "Run", fmt.Sprintf("%s\n    %s %v", desc, strings.Join(d.other, "\n    "), d.staleReferencedPolicyChains), []string{desc})
					}
				}
			}
		}
		sr := r.toScen(name, t0, map[string]int{"befores": len(befores), "afters": len(all)})
		sr.Transitions = transitions
		return sr
	}}
}
