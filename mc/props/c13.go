package props

import (
	"fmt"
	"net"
	"strings"
	"time"

	"github.com/containernetworking/cni/pkg/skel"
	t020 "github.com/containernetworking/cni/pkg/types/020"
	cniipam "tkestack.io/galaxy/cni/ipam"

	"verif.local/mc/coop"
	"verif.local/mc/world"
)

// C13: the address, prefix length, gateway and VLAN of every IP galaxy-ipam allocated arrive unchanged and in order at the plugin.

type c13Setting struct {
	Octet   int  // pool lives in <octet>.0.0.0
	MaskLen int  // 8,16,24,30,32
	GwLast  bool // gateway = last host instead of first
	Vlan    int
}

func (s c13Setting) pool() (json string, ip string, gw string, maskLen int, vlan int) {
	base := fmt.Sprintf("%d.1.1", s.Octet)
	var subnet string
	switch s.MaskLen {
	case 32:
		ip = base + ".1"
		gw = ip
		subnet = ip + "/32"
	case 30:
		subnet = base + ".0/30"
		if s.GwLast {
			gw, ip = base+".2", base+".1"
		} else {
			gw, ip = base+".1", base+".2"
		}
	default:
		subnet = fmt.Sprintf("%s.0/%d", base, s.MaskLen)
		ip = base + ".77"
		if s.GwLast {
			gw = lastHost(base+".0", s.MaskLen)
		} else {
			gw = firstHost(base+".0", s.MaskLen)
		}
	}
	return poolJSON([]string{"10.0.1.0/24"}, []string{ip}, subnet, gw, s.Vlan), ip, gw, s.MaskLen, s.Vlan
}

func firstHost(base string, maskLen int) string {
	_, n, _ := net.ParseCIDR(fmt.Sprintf("%s/%d", base, maskLen))
	ip := n.IP.To4()
	ip[3]++
	return ip.String()
}

func lastHost(base string, maskLen int) string {
	_, n, _ := net.ParseCIDR(fmt.Sprintf("%s/%d", base, maskLen))
	ip := n.IP.To4()
	for i := range ip {
		ip[i] |= ^n.Mask[i]
	}
	ip[3]--
	return ip.String()
}

func c13Cases(tier string) [][]c13Setting {
	masks := []int{8, 16, 24, 30, 32}
	vlans := []int{0, 1, 2, 4094, 4095, 65535}
	var single []c13Setting
	for _, m := range masks {
		for _, g := range []bool{false, true} {
			for _, v := range vlans {
				single = append(single, c13Setting{MaskLen: m, GwLast: g, Vlan: v})
			}
		}
	}
	var out [][]c13Setting
	for _, s := range single {
		s.Octet = 21
		out = append(out, []c13Setting{s})
	}
	// k = 2 and 3: ordered tuples over a reduced menu (every mask once, vlan 0 and non-zero, both gateway positions)
	menu := []c13Setting{{MaskLen: 24, Vlan: 0}, {MaskLen: 24, Vlan: 2}, {MaskLen: 16, GwLast: true, Vlan: 4094}, {MaskLen: 8, Vlan: 65535}, {MaskLen: 30, GwLast: true, Vlan: 0}, {MaskLen: 32, Vlan: 1}}
	for i := range menu {
		for j := range menu {
			a, b := menu[i], menu[j]
			a.Octet, b.Octet = 21, 22
			out = append(out, []c13Setting{a, b})
			if tier == "thorough" || (i < 4 && j < 4) {
				for l := range menu {
					if tier != "thorough" && l >= 4 {
						continue
					}
					c := menu[l]
					c.Octet = 23
					out = append(out, []c13Setting{a, b, c})
				}
			}
		}
	}
	return out
}

func c13Job(shard, nshards int, tier string) Job {
	name := fmt.Sprintf("ipam-to-plugin/shard%d", shard)
	return Job{Name: name, Weight: 2, Run: func(deadline time.Time) *ScenResult {
		t0 := time.Now()
		r := newCaseResult()
		h, err := newCNIHarness(daemonConf{Defaults: []string{"a"}})
		if err != nil {
			panic(err)
		}
		defer h.close()
		cases := c13Cases(tier)
		// every multi-IP case twice: ranges requested in the order of the pools and in the opposite order (the order of the
		// request, not any order of the addresses, is what the plugin must see)
		var expanded [][]c13Setting
		var reversed []bool
		for _, cs := range cases {
			expanded = append(expanded, cs)
			reversed = append(reversed, false)
			if len(cs) > 1 {
				expanded = append(expanded, cs)
				reversed = append(reversed, true)
			}
		}
		cases = expanded
		for ci, cs := range cases {
			if ci%nshards != shard {
				continue
			}
			if time.Now().After(deadline) {
				r.exhausted = false
				break
			}
			var pools, ranges []string
			type want struct {
				ip, gw        string
				maskLen, vlan int
			}
			var wants []want
			for _, s := range cs {
				pj, ip, gw, ml, vl := s.pool()
				pools = append(pools, pj)
				ranges = append(ranges, `["`+ip+`"]`)
				wants = append(wants, want{ip, gw, ml, vl})
			}
			desc := fmt.Sprintf("pools [%s]", strings.Join(pools, ","))
			if reversed[ci] {
				for i, j := 0, len(ranges)-1; i < j; i, j = i+1, j-1 {
					ranges[i], ranges[j] = ranges[j], ranges[i]
					wants[i], wants[j] = wants[j], wants[i]
				}
				desc += " requested in reverse order " + strings.Join(ranges, ",")
			}
			w := world.New(world.Config{Pools: "[" + strings.Join(pools, ",") + "]", Nodes: nodesN1})
			if err := w.Start(); err != nil {
				r.violate("C13", name, "setup", "configuration-rejected", "ConfigurePool", desc+": "+err.Error(), []string{desc})
				continue
			}
			w.SetStatefulSet("ns", "a", 1)
			spec := world.PodSpec{Name: "a-0", NS: "ns", OwnerKind: "StatefulSet", OwnerName: "a"}
			if len(cs) > 1 || true {
				spec.Ranges = "[" + strings.Join(ranges, ",") + "]"
			}
			w.CreatePod(spec)
			r.evals++
			if _, err := w.Schedule(spec.Key()); err != nil || len(w.Bindings) != 1 {
				r.violate("C13", name, "bind", "bind-failed", "Bind", fmt.Sprintf("%s: %v", desc, err), []string{desc})
				continue
			}
			b := w.Bindings[0]
			// what IPAM persisted
			if len(b.IPs) != len(wants) {
				r.violate("C13", name, "bind", "wrong-number-of-ips-in-annotation", "Bind", fmt.Sprintf("%s: %v", desc, b.IPs), []string{desc})
				continue
			}
			// the daemon passes the annotation on
			h.reset()
			h.putPod(cniPod{Name: "a-0", Networks: "a", ExtendedArg: b.Anno})
			code, body := h.request("ADD", fmt.Sprintf("k%d", ci), "a-0", "eth0")
			inv := h.invocations()
			if code != 200 || len(inv) != 1 {
				r.violate("C13", name, "daemon", "daemon-add-failed", "ADD", fmt.Sprintf("%s: HTTP %d %s, %d invocations", desc, code, body, len(inv)), []string{desc})
				continue
			}
			// the plugins' own decoder
			vlans, results, err := cniipam.Allocate("", &skel.CmdArgs{Args: inv[0].RawArgs})
			r.distinct[hashOf(desc)] = true
			if len(r.samples) < 3 && r.evals%29 == 1 {
				r.samples = append(r.samples, fmt.Sprintf("%s -> annotation %s -> CNI_ARGS %s", desc, b.Anno, inv[0].RawArgs))
			}
			if err != nil || len(results) != len(wants) || len(vlans) != len(wants) {
				r.violate("C13", name, "plugin", "plugin-decoder-failed-or-count-differs", "Allocate", fmt.Sprintf("%s: CNI_ARGS %q -> %d results, err %v", desc, inv[0].RawArgs, len(results), err), []string{desc})
				continue
			}
			for i, wnt := range wants {
				res, ok := results[i].(*t020.Result)
				if !ok || res.IP4 == nil {
					r.violate("C13", name, "plugin", "plugin-result-not-ipv4", "Allocate", desc, []string{desc})
					continue
				}
				ones, _ := res.IP4.IP.Mask.Size()
				got := fmt.Sprintf("%s/%d gw %s vlan %d", res.IP4.IP.IP.String(), ones, res.IP4.Gateway.String(), vlans[i])
				exp := fmt.Sprintf("%s/%d gw %s vlan %d", wnt.ip, wnt.maskLen, wnt.gw, wnt.vlan)
				// the persisted object must be the same address under the pod's key
				if f, ok := w.FIPs[wnt.ip]; !ok || !strings.HasSuffix(f.Spec.Key, "_a-0") {
					r.violate("C13", name, "store", "allocated-ip-not-persisted", "store", fmt.Sprintf("%s: %s", desc, wnt.ip), []string{desc})
				}
				if got != exp {
					r.violate("C13", name, fmt.Sprintf("k=%d", len(wants)), "plugin-sees-different-ip-settings", "pipeline",
						fmt.Sprintf("%s: IP #%d allocated as [%s], the plugin's decoder yields [%s] (annotation %s, CNI_ARGS %s)", desc, i, exp, got, b.Anno, inv[0].RawArgs), []string{desc})
				}
			}
			for _, k := range []string{"K8S_POD_NAMESPACE", "K8S_POD_NAME", "K8S_POD_INFRA_CONTAINER_ID", "IgnoreUnknown"} {
				if inv[0].Args[k] == "" {
					r.violate("C13", name, "daemon", "kubelet-arg-lost", "ADD", fmt.Sprintf("%s: %s missing from %q", desc, k, inv[0].RawArgs), []string{desc})
				}
			}
		}
		return r.toScen(name, t0, map[string]int{"cases": len(cases)})
	}}
}

func init() {
	register(&Property{ID: "C13", Level: "exploration", QuickS: 100, ThoroughS: 400,
		Assume: []string{"composition of the real galaxy-ipam Bind (world model of the API server), the real daemon request path with a recording plugin, and the plugins' own decoder cni/ipam.Allocate",
			"masks /8 /16 /24 /30 /32, gateway first/last host, VLAN ids {0,1,2,4094,4095,65535}; k in {1,2,3} IPs from pools with different settings"},
		Rule: "every single-pool setting (60) and ordered pairs/triples over a 6-setting menu: Bind -> binding annotation -> pod annotation -> daemon ADD -> CNI_ARGS recorded by the plugin -> Allocate(); the decoded (address, prefix length, gateway, VLAN) sequence must equal what was configured for the allocated, persisted IPs, in request order; the pair/triple cases again with k pods that request no range (the allocator picks among pools that serve one node subnet with different settings); plus 66 two-configuration cases (a pod bound, the pool's settings replaced or a pool added in front of it, a second pod bound): the second pod's plugin sees the settings in force; distinct/non-trivial = distinct pool settings",
		Jobs: func(tier string) []Job {
			var jobs []Job
			for s := 0; s < 8; s++ {
				jobs = append(jobs, c13Job(s, 8, tier))
			}
			for _, sc := range c13ConcurrentScenarios(tier) {
				jobs = append(jobs, ExploreJob("C13", sc, oracleC13Concurrent))
			}
			return append(jobs, c13ReloadJob(tier), c13NoRangeJob(tier))
		}})
	replayers["C13"] = func(tier string, v coop.Violation) int {
		if len(v.Choices) > 0 {
			return replayExplore("C13", c13ConcurrentScenarios(tier), oracleC13Concurrent, v)
		}
		return replayDescOnly(tier, v)
	}
}
