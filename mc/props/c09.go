package props

import (
	"fmt"
	"net"
	"sort"
	"strings"
	"time"
	"tkestack.io/galaxy/pkg/ipam/api"

	corev1 "k8s.io/api/core/v1"

	"verif.local/mc/coop"
	"verif.local/mc/world"
)

// C09: reserved and de-configured IPs are never allocated; reload is lossless.

func c09Pools(ipsA []string, ipsB []string) string {
	s := "[" + poolJSON([]string{"10.0.1.0/24"}, ipsA, "10.10.1.0/24", "10.10.1.254", 0)
	if len(ipsB) > 0 {
		s += "," + poolJSON([]string{"10.0.2.0/24"}, ipsB, "10.10.2.0/24", "10.10.2.254", 2)
	}
	return s + "]"
}

func inConfig(cfgJSON, ip string) bool {
	for _, p := range poolsOf(cfgJSON) {
		if p.Contains(net.ParseIP(ip)) {
			return true
		}
	}
	return false
}

// informerThread delivers FloatingIP / pod events in arrival order as they appear, until *done and the queue is empty.
func informerThread(w *world.World, done *bool) func() {
	return func() {
		for {
			coop.WaitUntil("informer", "next event", func() bool { return len(w.Pending) > 0 || *done })
			if len(w.Pending) == 0 {
				return
			}
			w.Deliver(0)
		}
	}
}

// oracleC09 uses w.Configs (every configuration that was in force during the execution; last = target).
func oracleC09(w *world.World, s *coop.Sched, final bool) *Finding {
	target := w.ConfigMap
	mem, f := memByIP(w)
	if f != nil {
		return f
	}
	st := storeByIP(w)
	// what an administrator reserved and has not given back is still reserved: the labelled object exists
	for ip := range w.AdminReserved {
		if so, ok := st[ip]; !ok || !so.Reserved || so.Key != "admin-reserved" {
			return &Finding{Clause: "administrator-reservation-removed", Detail: fmt.Sprintf("%s was reserved by an administrator and not given back, the store now has {%v present=%v}; store log %v", ip, so, ok, tail(w.StoreLog, 4))}
		}
	}
	for _, b := range liveBound(w) {
		key := podKeyInDB(w, b.PodKey)
		for _, ip := range b.IPs {
			ever := false
			for _, c := range w.Configs {
				if inConfig(c, ip) {
					ever = true
				}
			}
			if !ever {
				return &Finding{Clause: "bound-ip-outside-configuration", Detail: fmt.Sprintf("pod %s bound with %s which is in none of the configurations in force", b.PodKey, ip)}
			}
			if so, ok := st[ip]; ok && so.Reserved {
				return &Finding{Clause: "bound-ip-is-admin-reserved", Detail: fmt.Sprintf("pod %s bound with %s while a labelled (reserved) FloatingIP object of that name exists", b.PodKey, ip)}
			}
			// an IP that is configured in every configuration in force must stay with its live pod (memory and store)
			always := true
			for _, c := range w.Configs {
				if !inConfig(c, ip) {
					always = false
				}
			}
			if !always {
				continue
			}
			m := mem[ip]
			if !m.Alloc || m.Key != key {
				return &Finding{Clause: "live-pod-ip-lost-in-memory", Detail: fmt.Sprintf("pod %s(uid %s) bound with %s (still configured) but memory says {%v}; store log %v", b.PodKey, b.UID, ip, m, tail(w.StoreLog, 4))}
			}
			if so, ok := st[ip]; !ok || so.Key != key {
				return &Finding{Clause: "live-pod-ip-lost-in-store", Detail: fmt.Sprintf("pod %s(uid %s) bound with %s (still configured) but store says {%v present=%v}", b.PodKey, b.UID, ip, so, ok)}
			}
		}
	}
	if final {
		// a delete of a de-configured IP's object that failed (injected API fault) is logged and not retried by design; such a
		// leftover is outside this property (the IP is not configured, nothing can hand it out)
		// (likewise the roll-back of a multi-IP allocation that was refused half-way — the second address turned out to be
		// reserved — whose delete is the injected fault: the object it could not delete stays; a failure on top of a refusal is
		// C05's fault model, not this property's)
		leftover := map[string]bool{}
		for _, l := range w.APILog {
			if strings.HasPrefix(l, "FAULT delete fip ") {
				leftover[strings.Fields(l)[3]] = true
			}
		}
		if f := agreeMemStoreExcept(w, leftover); f != nil {
			f.Clause = "after-reload-" + f.Clause
			return f
		}
		if w.ReloadDone {
			for ip := range st {
				if !inConfig(target, ip) && !leftover[ip] {
					return &Finding{Clause: "object-outside-configuration-survives-reload", Detail: ip}
				}
			}
			for ip, m := range mem {
				if !inConfig(target, ip) {
					return &Finding{Clause: "ip-outside-configuration-in-memory", Detail: fmt.Sprintf("%v", m)}
				}
			}
			for _, p := range poolsOf(target) {
				for _, ip := range allIPs(world.Config{Pools: "[" + p.String() + "]"}) {
					if _, ok := mem[ip]; !ok {
						return &Finding{Clause: "configured-ip-missing-from-memory", Detail: ip}
					}
				}
			}
		}
		// allocations that existed before the concurrent phase, are still configured and were not released by an operation
		for ip, key := range w.MustKeep {
			if !inConfig(target, ip) {
				continue
			}
			if m := mem[ip]; !m.Alloc || m.Key != key {
				return &Finding{Clause: "allocation-lost-by-reload", Detail: fmt.Sprintf("%s was held by %s before the reload and is still configured, now {%v}", ip, key, m)}
			}
		}
	}
	return nil
}

func c09Scenarios(tier string) []*Scenario {
	b := map[string]int{"preempt": 2}
	if tier == "thorough" {
		b = map[string]int{"preempt": 3, "fault": 1}
	}
	c1 := c09Pools([]string{"10.10.1.1~10.10.1.3"}, nil)
	targets := map[string]string{
		"drop-ip":    c09Pools([]string{"10.10.1.1~10.10.1.2"}, nil),
		"add-ip":     c09Pools([]string{"10.10.1.1~10.10.1.4"}, nil),
		"add-pool":   c09Pools([]string{"10.10.1.1~10.10.1.3"}, []string{"10.10.2.1"}),
		"drop-first": c09Pools([]string{"10.10.1.2~10.10.1.3"}, nil),
		// drops the address of the pod whose release runs next to the reload
		"drop-second": c09Pools([]string{"10.10.1.1", "10.10.1.3"}, nil),
	}
	var out []*Scenario
	base := world.Config{Pools: c1, Nodes: nodesN1N2}
	reload := func(w *world.World, c2 string) func() {
		return func() {
			w.ConfigMap = c2
			w.Configs = append(w.Configs, c2)
			if err := w.Reload(); err == nil {
				w.ReloadDone = true
			}
		}
	}
	sts := wkClass{"sts", ""}
	for _, tn := range []string{"add-ip", "add-pool", "drop-ip", "drop-first", "drop-second"} {
		tn := tn
		c2 := targets[tn]
		out = append(out, &Scenario{Name: "reload-" + tn + "/vs-schedule", Class: "reload/" + tn, Cfg: base, Bounds: b, Weight: 3,
			Build: func(w *world.World) []Thread {
				w.Configs = []string{c1}
				sts.setWorkload(w, 3)
				y := sts.pod(2)
				w.CreatePod(y)
				mustSchedule(w, y.Key()) // holds 10.10.1.1
				w.MustKeep = map[string]string{"10.10.1.1": podKeyInDB(w, y.Key())}
				x := sts.pod(0)
				w.CreatePod(x)
				return []Thread{{"reload", reload(w, c2)}, {"sched-x", scheduleRetry(w, x.Key(), 2)}}
			},
			Final: func(w *world.World) {
				for len(w.Pending) > 0 {
					w.Deliver(0)
				}
			}})
		out = append(out, &Scenario{Name: "reload-" + tn + "/vs-unbind+schedule", Class: "reload/" + tn, Cfg: base, Bounds: b, Weight: 3,
			Build: func(w *world.World) []Thread {
				w.Configs = []string{c1}
				sts.setWorkload(w, 3)
				y, z := sts.pod(2), sts.pod(1)
				w.CreatePod(y)
				mustSchedule(w, y.Key())
				w.CreatePod(z)
				mustSchedule(w, z.Key())
				w.MustKeep = map[string]string{"10.10.1.1": podKeyInDB(w, y.Key())}
				w.DeletePod(z.Key())
				old := takePending(w)
				x := sts.pod(0)
				w.CreatePod(x)
				return []Thread{{"reload", reload(w, c2)}, {"deliver-old", deliverAll(w, old)}, {"sched-x", scheduleRetry(w, x.Key(), 2)}}
			},
			Final: func(w *world.World) {
				for len(w.Pending) > 0 {
					w.Deliver(0)
				}
			}})
	}
	// the release API for a vanished pod's address next to a reload that drops / keeps that address
	for _, tn := range []string{"drop-second", "drop-ip"} {
		tn := tn
		c2 := targets[tn]
		out = append(out, &Scenario{Name: "reload-" + tn + "/vs-apirelease", Class: "reload/" + tn, Cfg: base, Bounds: b, Weight: 3,
			Build: func(w *world.World) []Thread {
				w.Configs = []string{c1}
				sts.setWorkload(w, 3)
				y, z := sts.pod(2), sts.pod(1)
				w.CreatePod(y)
				mustSchedule(w, y.Key())
				w.CreatePod(z)
				mustSchedule(w, z.Key())
				w.MustKeep = map[string]string{"10.10.1.1": podKeyInDB(w, y.Key())}
				w.DeletePod(z.Key())
				takePending(w) // the delete notification is lost: the release API is the way to free the address
				_, list := w.APIList("keyword=" + z.Name)
				entries := append([]api.FloatingIP{}, list.Content...)
				return []Thread{{"reload", reload(w, c2)}, {"apirelease", func() { w.APIRelease(entries) }}}
			},
			Final: func(w *world.World) {
				for len(w.Pending) > 0 {
					w.Deliver(0)
				}
			}})
	}
	// administrator reservations with watch events arriving at any later point
	for _, variant := range []string{"reserve", "reserve+unreserve", "reserve/2pods", "reserve+unreserve/2pods", "reserve/ranges", "reserve/2ranges"} {
		variant := variant
		two := strings.HasSuffix(variant, "/2pods")
		ranges := ""
		switch {
		case strings.HasSuffix(variant, "/ranges"):
			ranges = `[["10.10.1.1~10.10.1.2"]]` // the pod asks for a range that contains the reserved address
		case strings.HasSuffix(variant, "/2ranges"):
			ranges = `[["10.10.1.2"],["10.10.1.1"]]` // two IPs, the second one is the reserved address
		}
		bb := b
		if two {
			bb = map[string]int{"preempt": b["preempt"] - 1, "fault": b["fault"]}
		}
		out = append(out, &Scenario{Name: "admin-" + variant + "/vs-schedule", Class: "admin/" + strings.SplitN(variant, "/", 2)[0], Cfg: world.Config{Pools: c09Pools([]string{"10.10.1.1~10.10.1.2"}, nil), Nodes: nodesN1N2},
			Bounds: bb, Weight: 4,
			Build: func(w *world.World) []Thread {
				w.Configs = []string{w.ConfigMap}
				sts.setWorkload(w, 3)
				x, y := sts.pod(0), sts.pod(1)
				x.Ranges = ranges
				w.CreatePod(x)
				w.CreatePod(y)
				done := false
				ths := []Thread{
					{"admin", func() {
						_ = w.Reserve("10.10.1.1")
						if strings.HasPrefix(variant, "reserve+unreserve") {
							coop.Point("admin", "between reserve and unreserve")
							_ = w.Unreserve("10.10.1.1")
						}
						done = true
					}},
					{"informer", informerThread(w, &done)},
					{"sched-x", scheduleRetry(w, x.Key(), 2)},
				}
				if two {
					ths = append(ths, Thread{"sched-y", scheduleRetry(w, y.Key(), 2)})
				}
				return ths
			},
			Final: func(w *world.World) {
				for len(w.Pending) > 0 {
					w.Deliver(0)
				}
			}})
	}
	// a running pod whose annotation names an address that is recorded nowhere (its object was lost while galaxy-ipam was down);
	// an administrator reserves that address, and the periodic pod-IP sync runs before or after the reservation's event
	out = append(out, &Scenario{Name: "admin-reserve/vs-syncpodips", Class: "admin/reserve", Cfg: world.Config{Pools: c09Pools([]string{"10.10.1.1~10.10.1.2"}, nil), Nodes: nodesN1N2},
		Bounds: b, Weight: 3,
		Build: func(w *world.World) []Thread {
			w.Configs = []string{w.ConfigMap}
			sts.setWorkload(w, 3)
			x := sts.pod(0)
			w.CreatePod(x)
			mustSchedule(w, x.Key())
			w.SetPhase(x.Key(), corev1.PodRunning)
			ip := w.Bindings[0].IPs[0]
			for n := range w.FIPs {
				delete(w.FIPs, n)
			}
			if err := w.Restart(); err != nil {
				panic(err)
			}
			w.Bindings = nil // (the binding belongs to an earlier life of the store: nothing records it any more)
			done := false
			return []Thread{
				{"admin", func() { _ = w.Reserve(ip); done = true }},
				{"informer", informerThread(w, &done)},
				{"syncpodips", func() { w.SyncPodIPs() }},
			}
		},
		Final: func(w *world.World) {
			for len(w.Pending) > 0 {
				w.Deliver(0)
			}
		}})
	// a pod that is already running with an annotation IP (pod-IP sync) vs. reload
	out = append(out, &Scenario{Name: "reload-add-ip/vs-syncpodips", Class: "reload/add-ip", Cfg: base, Bounds: b, Weight: 2,
		Build: func(w *world.World) []Thread {
			w.Configs = []string{c1}
			sts.setWorkload(w, 3)
			y := sts.pod(2)
			w.CreatePod(y)
			mustSchedule(w, y.Key())
			w.SetPhase(y.Key(), corev1.PodRunning)
			takePending(w)
			w.MustKeep = map[string]string{"10.10.1.1": podKeyInDB(w, y.Key())}
			return []Thread{{"reload", reload(w, targets["add-ip"])}, {"syncpodips", func() { w.SyncPodIPs() }}, {"resync", func() { _ = w.Resync() }}}
		}})
	return out
}

// c09SeqJob: sequential reload matrix: every ordered pair of configurations from the C06 shape menu x allocation states.
func c09SeqJob(shard, nshards, maxPools, maxBusy int) Job {
	name := fmt.Sprintf("reload-matrix/shard%d", shard)
	return Job{Name: name, Weight: 2, Run: func(deadline time.Time) *ScenResult {
		t0 := time.Now()
		r := newCaseResult()
		cfgs := c06Configs(maxPools)
		bounds := map[string]int{"pools": maxPools, "busy_ips": maxBusy}
		n := 0
		for i, c1 := range cfgs {
			ips := allIPs(c1)
			for j, c2 := range cfgs {
				for _, busy := range subsetsUpTo(ips, maxBusy) {
					if len(busy) == 0 {
						continue
					}
					n++
					if n%nshards != shard {
						continue
					}
					if time.Now().After(deadline) {
						r.exhausted = false
						return r.toScen(name, t0, bounds)
					}
					calls := c09SeqCase(r, name, i, j, c1, c2, busy, 0)
					// the same reload with its k-th API call failing, followed by the next periodic tick on the same ConfigMap
					for k := 1; k <= calls; k++ {
						c09SeqCase(r, name, i, j, c1, c2, busy, k)
					}
				}
			}
		}
		return r.toScen(name, t0, bounds)
	}}
}

func expectedPoolDesc(cfg world.Config, ip string) string {
	p := poolOfIP(cfg, ip)
	if p == nil {
		return ""
	}
	var sn []string
	for _, n := range p.NodeSubnets {
		sn = append(sn, n.String())
	}
	sort.Strings(sn)
	return fmt.Sprintf("%s %s %d %v", net.IP(p.Mask).String(), p.Gateway.String(), p.Vlan, sn)
}

func c09SeqCase(r *caseResult, scen string, i, j int, c1, c2 world.Config, busy []string, faultAt int) int {
	desc := fmt.Sprintf("config#%d -> config#%d allocated %v\n  from %s\n  to   %s", i, j, busy, c1.Pools, c2.Pools)
	if faultAt > 0 {
		desc = fmt.Sprintf("config#%d -> config#%d allocated %v, API call %d of the reload fails, then the next tick\n  from %s\n  to   %s", i, j, busy, faultAt, c1.Pools, c2.Pools)
	}
	w := world.New(c1)
	if err := w.Start(); err != nil {
		panic(err)
	}
	keys := map[string]string{}
	for n, ip := range busy {
		k := fmt.Sprintf("sts_ns_a_a-%d", n)
		if err := preAllocate(w, ip, k, "u"); err == nil {
			keys[ip] = k
		}
	}
	w.ConfigMap = c2.Pools
	w.ResetFault(faultAt)
	err := w.Reload()
	calls := w.FaultCount()
	w.ResetFault(0)
	if faultAt > 0 {
		err = w.Reload() // the periodic routine looks at the ConfigMap again
	}
	r.evals++
	r.distinct[hashOf(i, j, busy, faultAt, err != nil, dumpNoTime(w.MemDump()))] = true
	if len(r.samples) < 3 && r.evals%401 == 1 {
		r.samples = append(r.samples, desc)
	}
	class := "reload-matrix"
	if faultAt > 0 {
		class = "reload-matrix-fault"
	}
	if err != nil {
		r.violate("C09", scen, class, "reload-failed", "reload", desc+": "+err.Error(), []string{desc})
		return calls
	}
	if faultAt > 0 {
		// a failed delete of a de-configured IP's object is logged and not retried by design: such leftovers in the store are
		// not part of this property (the IP is not configured, nothing can hand it out); everything else must agree
		for ip := range storeByIP(w) {
			if !inConfig(c2.Pools, ip) {
				delete(w.FIPs, ip)
			}
		}
	}
	if f := agreeMemStore(w); f != nil {
		r.violate("C09", scen, class, "after-reload-"+f.Clause, "reload", desc+": "+f.Detail, []string{desc})
		return calls
	}
	mem, _ := memByIP(w)
	for ip, k := range keys {
		m, ok := mem[ip]
		if inConfig(c2.Pools, ip) {
			if !ok || !m.Alloc || m.Key != k {
				r.violate("C09", scen, class, "allocation-lost-by-reload", "reload", fmt.Sprintf("%s: %s held by %s is still configured but memory has {%v}", desc, ip, k, m), []string{desc})
			} else if m.PoolDesc != expectedPoolDesc(c2, ip) {
				r.violate("C09", scen, class, "allocation-attached-to-wrong-pool", "reload", fmt.Sprintf("%s: %s is described as [%s], its pool in the new configuration is [%s]", desc, ip, m.PoolDesc, expectedPoolDesc(c2, ip)), []string{desc})
			}
		} else if ok {
			r.violate("C09", scen, class, "deconfigured-ip-kept", "reload", fmt.Sprintf("%s: %s is no longer configured but memory has {%v}", desc, ip, m), []string{desc})
		}
	}
	want := allIPs(c2)
	if len(want) != len(mem) {
		r.violate("C09", scen, class, "tables-differ-from-configuration", "reload", fmt.Sprintf("%s: memory has %d IPs, configuration %d", desc, len(mem), len(want)), []string{desc})
	}
	for _, ip := range want {
		if m, ok := mem[ip]; !ok {
			r.violate("C09", scen, class, "configured-ip-missing-from-memory", "reload", desc+": "+ip, []string{desc})
		} else if m.PoolDesc != expectedPoolDesc(c2, ip) {
			r.violate("C09", scen, class, "ip-attached-to-wrong-pool", "reload", fmt.Sprintf("%s: %s is [%s], want [%s]", desc, ip, m.PoolDesc, expectedPoolDesc(c2, ip)), []string{desc})
		}
	}
	// a de-configured IP can no longer be allocated; a kept one cannot be given away
	for ip, k := range keys {
		err := preAllocate(w, ip, "sts_ns_thief_thief-0", "ut")
		if err == nil {
			r.violate("C09", scen, class, "ip-allocatable-after-reload", "reload", fmt.Sprintf("%s: %s (held by %s, configured after reload: %v) could be allocated again", desc, ip, k, inConfig(c2.Pools, ip)), []string{desc})
		}
	}
	return calls
}

func init() {
	register(&Property{ID: "C09", Level: "exploration", QuickS: 100, ThoroughS: 1200, Rule: ruleExplore,
		Assume: append([]string{"configurations: one base configuration and four targets (add IP, add pool, drop last IP, drop first IP); administrator reserve/unreserve of one IP with watch events delivered in arrival order at any later point"}, assumeIPAM...),
		Jobs: func(tier string) []Job {
			var jobs []Job
			for _, sc := range c09Scenarios(tier) {
				jobs = append(jobs, ExploreJob("C09", sc, oracleC09))
			}
			p, b := 2, 2
			if tier == "thorough" {
				p, b = 3, 2
			}
			for s := 0; s < 8; s++ {
				jobs = append(jobs, c09SeqJob(s, 8, p, b))
			}
			return jobs
		}})
	replayers["C09"] = func(tier string, v coop.Violation) int {
		if len(v.Ops) > 0 {
			return replayDescOnly(tier, v)
		}
		return replayExplore("C09", c09Scenarios(tier), oracleC09, v)
	}
}
