package props

import (
	"fmt"
	"os"
	"os/exec"
	"path/filepath"
	"sort"
	"strings"
	"time"

	"verif.local/mc/nfsim"
)

// Cross-check of the netfilter simulator against the real iptables of this image: the exact command trace galaxy produced
// in a C14 history (every iptables / iptables-restore invocation with its stdin) is replayed inside a private network
// namespace (`unshare -n`), and both the per-command success/failure and the resulting `iptables-save -t nat` are compared
// with the simulator's. This is the "model validated against the implementation" step for nfsim.

func shQuote(s string) string { return "'" + strings.ReplaceAll(s, "'", `'\''`) + "'" }

func realIptablesAvailable() bool {
	out, err := exec.Command("unshare", "-n", "iptables", "-t", "nat", "-S").CombinedOutput()
	return err == nil && strings.Contains(string(out), "-P PREROUTING")
}

// replayOnRealIptables returns the per-command verdicts and the normalised nat table of the real tool.
func replayOnRealIptables(script []nfsim.CmdRec, dir string) ([]bool, string, error) {
	var b strings.Builder
	b.WriteString("#!/bin/sh\n")
	n := 0
	for _, c := range script {
		if c.Cmd != "iptables" && c.Cmd != "iptables-restore" {
			continue
		}
		skip := false
		for _, a := range c.Args {
			if a == "--version" {
				skip = true
			}
		}
		if skip {
			continue
		}
		var q []string
		for _, a := range c.Args {
			q = append(q, shQuote(a))
		}
		if c.Cmd == "iptables-restore" {
			f := filepath.Join(dir, fmt.Sprintf("in%d", n))
			if err := os.WriteFile(f, []byte(c.Stdin), 0o644); err != nil {
				return nil, "", err
			}
			fmt.Fprintf(&b, "iptables-restore %s < %s >/dev/null 2>&1; echo \"rc $?\"\n", strings.Join(q, " "), shQuote(f))
		} else {
			fmt.Fprintf(&b, "iptables %s >/dev/null 2>&1; echo \"rc $?\"\n", strings.Join(q, " "))
		}
		n++
	}
	b.WriteString("echo SAVE\niptables-save -t nat\n")
	sf := filepath.Join(dir, "replay.sh")
	if err := os.WriteFile(sf, []byte(b.String()), 0o755); err != nil {
		return nil, "", err
	}
	out, err := exec.Command("unshare", "-n", "sh", sf).CombinedOutput()
	if err != nil {
		return nil, "", fmt.Errorf("%v: %s", err, out)
	}
	parts := strings.SplitN(string(out), "SAVE\n", 2)
	var verdicts []bool
	for _, l := range strings.Split(parts[0], "\n") {
		if strings.HasPrefix(l, "rc ") {
			verdicts = append(verdicts, l == "rc 0")
		}
	}
	save := ""
	if len(parts) == 2 {
		save = parts[1]
	}
	return verdicts, normSave(save), nil
}

// normSave drops comment lines and packet counters and lists the chains (and, chain by chain, their rules in rule order) in
// sorted order: the order in which user chains are listed differs between the back ends and carries no meaning.
func normSave(s string) string {
	var chains []string
	rules := map[string][]string{}
	for _, l := range strings.Split(s, "\n") {
		l = strings.TrimSpace(l)
		if l == "" || strings.HasPrefix(l, "#") || strings.HasPrefix(l, "*") || l == "COMMIT" {
			continue
		}
		if strings.HasPrefix(l, ":") {
			if i := strings.Index(l, " ["); i > 0 {
				l = l[:i]
			}
			chains = append(chains, l)
			continue
		}
		f := strings.Fields(l)
		if len(f) > 1 && f[0] == "-A" {
			rules[f[1]] = append(rules[f[1]], l)
		}
	}
	sort.Strings(chains)
	out := append([]string{}, chains...)
	for _, c := range chains {
		name := strings.Fields(strings.TrimPrefix(c, ":"))[0]
		out = append(out, rules[name]...)
	}
	return strings.Join(out, "\n")
}

func simVerdicts(script []nfsim.CmdRec) []bool {
	var out []bool
	for _, c := range script {
		if c.Cmd != "iptables" && c.Cmd != "iptables-restore" {
			continue
		}
		skip := false
		for _, a := range c.Args {
			if a == "--version" {
				skip = true
			}
		}
		if !skip {
			out = append(out, c.OK)
		}
	}
	return out
}

func c14XCheckJob(prior string, base int32, depth int) Job {
	name := "nfsim-vs-real-iptables/prior=" + prior
	return Job{Name: name, Weight: 2, Run: func(deadline time.Time) *ScenResult {
		t0 := time.Now()
		r := newCaseResult()
		if !realIptablesAvailable() {
			sr := r.toScen(name, t0, nil)
			sr.Exhaustive = false
			sr.Stopped = "skipped: `unshare -n iptables` is not available here"
			sr.Executions = 0
			return sr
		}
		dir, err := os.MkdirTemp("/var/tmp", "galaxy-xcheck.")
		if err != nil {
			panic(err)
		}
		defer os.RemoveAll(dir)
		pods := pmPods(base)
		var alphabet []pmOp
		alphabet = append(alphabet, pmOp{"basic", nil})
		for _, p := range []string{"x", "y", "x2", "v"} {
			alphabet = append(alphabet, pmOp{"setup", []string{p}}, pmOp{"clean", []string{p}})
		}
		for _, ps := range [][]string{{}, {"x"}, {"x", "y"}, {"x2"}, {"x", "v"}} {
			alphabet = append(alphabet, pmOp{"fullsync", ps})
		}
		var hists [][]pmOp
		var rec func(cur []pmOp)
		rec = func(cur []pmOp) {
			if len(cur) > 0 {
				hists = append(hists, append([]pmOp{}, cur...))
			}
			if len(cur) == depth {
				return
			}
			for _, o := range alphabet {
				rec(append(cur, o))
			}
		}
		rec(nil)
		cmds := 0
		for _, hist := range hists {
			if time.Now().After(deadline) {
				r.exhausted = false
				break
			}
			s := newPM(prior)
			for _, o := range hist {
				_ = s.apply(o, pods)
			}
			r.evals++
			desc := fmt.Sprintf("prior=%s %v", prior, hist)
			realV, realSave, err := replayOnRealIptables(s.k.Script, dir)
			if err != nil {
				r.violate("C14", name, "xcheck", "real-iptables-replay-failed", "harness", desc+": "+err.Error(), []string{desc})
				continue
			}
			simV := simVerdicts(s.k.Script)
			cmds += len(simV)
			r.distinct[hashOf(desc)] = true
			if len(r.samples) < 3 && r.evals%41 == 1 {
				r.samples = append(r.samples, fmt.Sprintf("%s: %d commands replayed on iptables v1.8.9 in a private netns", desc, len(simV)))
			}
			if fmt.Sprint(simV) != fmt.Sprint(realV) {
				r.violate("C14", name, "xcheck", "simulator-and-real-iptables-disagree-on-command-outcome", "nfsim", fmt.Sprintf("%s: simulator %v, real %v", desc, simV, realV), []string{desc})
				continue
			}
			if simSave := normSave(s.k.Save("nat")); simSave != realSave {
				r.violate("C14", name, "xcheck", "simulator-and-real-iptables-disagree-on-table", "nfsim", fmt.Sprintf("%s:\n--- simulator\n%s\n--- real\n%s", desc, simSave, realSave), []string{desc})
			}
		}
		sr := r.toScen(name, t0, map[string]int{"depth": depth})
		sr.States, sr.Transitions = len(r.distinct), cmds
		sr.Extra = map[string]int{"commands_replayed_on_real_iptables": cmds}
		return sr
	}}
}
