package props

import (
	"fmt"
	"sort"

	"verif.local/mc/coop"
	"verif.local/mc/world"
)

// Sequential histories for C01 / C04 / C10: the invariants of the concurrent families are also decided on every state of
// an explicit-state BFS over operation histories (the property's quantifier: "all finite histories of pod / workload
// lifecycle operations"), from the initial state and from three non-initial states, for every workload x policy class
// including pods with two IPs. With a cloud provider the alphabet also has a scheduling attempt and an event delivery
// during which one provider call fails cleanly.

var histOpsLife = map[string]bool{"create": true, "sched": true, "delete": true, "finish": true, "deliver": true, "drop": true,
	"resync": true, "scale": true, "apirelease": true, "run": true, "stalesync": true}

func ipamHistSystems(cloud bool) []*HistSys {
	ops := map[string]bool{}
	for k, v := range histOpsLife {
		ops[k] = v
	}
	ops["lostresp"] = true
	if cloud {
		ops["cloudfail"] = true
		ops["cloudfail2"] = true // also: a resync pass with a failing provider call, the second provider call of an event handler failing
	}
	classes := append(append([]wkClass{}, histClasses...), wkClass{"stsmulti", ""}, wkClass{"stsmulti", "immutable"}, wkClass{"ststwin", "immutable"})
	bound := []Op{{Kind: "create", A: 0}, {Kind: "sched", A: 0}, {Kind: "create", A: 1}, {Kind: "sched", A: 1}}
	reserved := append(append([]Op{}, bound...), Op{Kind: "delete", A: 0}, Op{Kind: "deliver", A: 0}, Op{Kind: "delete", A: 1}, Op{Kind: "deliver", A: 0})
	oneEach := append(append([]Op{}, bound...), Op{Kind: "delete", A: 0}, Op{Kind: "deliver", A: 0})
	// both bound; the first pod reported Running and was deleted, neither notification has been handled yet (late events of an
	// earlier incarnation are what the next operations have to cope with)
	staleEvents := append(append([]Op{}, bound...), Op{Kind: "run", A: 0}, Op{Kind: "delete", A: 0})
	var out []*HistSys
	for _, c := range classes {
		out = append(out, &HistSys{Class: c, Cfg: cfgTwoPools(cloud), NPods: 2, Replicas: 2, Ops: ops})
		out = append(out, &HistSys{Class: c, Cfg: cfgTwoPools(cloud), NPods: 2, Replicas: 2, Ops: ops, PrefixName: "allbound", Prefix: bound})
		out = append(out, &HistSys{Class: c, Cfg: cfgTwoPools(cloud), NPods: 2, Replicas: 2, Ops: ops, PrefixName: "bothdeleted", Prefix: reserved})
		out = append(out, &HistSys{Class: c, Cfg: cfgTwoPools(cloud), NPods: 2, Replicas: 2, Ops: ops, PrefixName: "onedeleted", Prefix: oneEach})
		out = append(out, &HistSys{Class: c, Cfg: cfgTwoPools(cloud), NPods: 2, Replicas: 2, Ops: ops, PrefixName: "lateevents", Prefix: staleEvents})
	}
	// pods whose keys are in a prefix relation (a-1 / a-10 of an eleven-replica statefulset, b-1 / b-10 without owner)
	for _, c := range []wkClass{{"stspfx", ""}, {"stspfx", "immutable"}, {"barepfx", ""}} {
		out = append(out, &HistSys{Class: c, Cfg: cfgTwoPools(cloud), NPods: 2, Replicas: 11, Ops: ops, PrefixName: "allbound", Prefix: bound})
	}
	// a pool whose name contains the key separator (pool names are free text)
	out = append(out, &HistSys{Class: wkClass{"dppoolu", ""}, Cfg: cfgTwoPools(cloud), NPods: 2, Replicas: 2, Ops: ops, PrefixName: "allbound", Prefix: bound})
	// two pools that share one pod subnet (disjoint ranges, different node subnets), with restarts in the alphabet: which pool an
	// allocated IP belongs to is decided again whenever the tables are rebuilt
	opsR := map[string]bool{"restart": true, "reload": true}
	for k, v := range ops {
		opsR[k] = v
	}
	shared := world.Config{Pools: "[" +
		poolJSON([]string{"10.0.1.0/24"}, []string{"10.10.1.1~10.10.1.2"}, "10.10.1.0/24", "10.10.1.254", 0) + "," +
		poolJSON([]string{"10.0.2.0/24"}, []string{"10.10.1.5~10.10.1.6"}, "10.10.1.0/24", "10.10.1.254", 0) + "]",
		Nodes: nodesN1N2, Cloud: cloud}
	for _, c := range []wkClass{{"sts", ""}, {"sts", "never"}, {"dp", "immutable"}} {
		out = append(out, &HistSys{Class: c, Cfg: shared, NPods: 2, Replicas: 2, Ops: opsR, PrefixName: "shared-pod-subnet"})
	}
	// the first pod failed (that notification has been handled) and was deleted (that one has not): a late delete event of the old
	// incarnation meets whatever happens next, restarts included (what tells a stale event from a current one must survive them)
	lateDelete := append(append([]Op{}, bound...), Op{Kind: "finish", A: 0}, Op{Kind: "deliver", A: 0}, Op{Kind: "delete", A: 0})
	for _, c := range []wkClass{{"sts", ""}, {"sts", "immutable"}, {"bare", ""}} {
		out = append(out, &HistSys{Class: c, Cfg: cfgTwoPools(cloud), NPods: 2, Replicas: 2, Ops: opsR, PrefixName: "latedelete", Prefix: lateDelete})
	}
	return out
}

// histOracleOf turns a state oracle of the concurrent families into a history oracle (every state of a sequential
// history is quiescent).
func histOracleOf(o Oracle) HistOracle {
	return func(h *HistSys, hist []Op, w *world.World, obs Obs) *Finding {
		f := o(w, nil, true)
		if f != nil && f.Culprit == "" && len(hist) > 0 {
			f.Culprit = hist[len(hist)-1].Kind
		}
		return f
	}
}

func ipamHistJobs(prop string, cloud bool, o Oracle, tier string) []Job {
	depth := 5
	if tier == "thorough" {
		depth = 6
	}
	var jobs []Job
	for _, h := range ipamHistSystems(cloud) {
		h := h
		h.StopAtViolation = true
		if prop == "C10" {
			h.Step = func(w *world.World) { _ = oracleC10(w, nil, false) }
			h.ModelCanon = func(h *HistSys, w *world.World) string {
				var ks []string
				for ip, k := range w.AssignOwner {
					ks = append(ks, ip+"="+k)
				}
				sort.Strings(ks)
				return fmt.Sprint(ks)
			}
		}
		jobs = append(jobs, histJob(prop, h.jobName(), h, depth, histOracleOf(o), nil))
	}
	return jobs
}

func replayIpamHist(prop string, cloud bool, o Oracle, v coop.Violation) int {
	systems := ipamHistSystems(cloud)
	if prop == "C10" {
		for _, h := range systems {
			h.Step = func(w *world.World) { _ = oracleC10(w, nil, false) }
		}
	}
	return replayHist(prop, systems, histOracleOf(o), v)
}
