package props

import (
	"encoding/json"
	"fmt"
	"net"
	"runtime/debug"
	"sort"
	"strings"
	"time"

	"tkestack.io/galaxy/pkg/ipam/floatingip"
	"tkestack.io/galaxy/pkg/utils/nets"

	"verif.local/mc/world"
)

// C20: floating-IP configuration and IP ranges decode, validate and round-trip (small-scope enumeration vs. a set-of-uint32 model).

var c20Addrs = []string{"0.0.0.0", "0.0.0.1", "10.0.0.0", "10.0.0.1", "10.0.0.2", "10.0.0.3", "10.0.0.254", "10.0.0.255", "10.0.1.0",
	"255.255.255.254", "255.255.255.255", "::ffff:10.0.0.1", "::1"}

func u32(ip net.IP) uint32 { return nets.IPToInt(ip) }

// panicInfo is what watchdog reports for a panic.
type panicInfo struct {
	Value interface{}
	Stack string
}

func (p panicInfo) String() string { return fmt.Sprint(p.Value) }

// watchdog runs f; reports a panic value or a timeout (the goroutine is abandoned on timeout).
func watchdog(d time.Duration, f func()) (panicked interface{}, timedOut bool) {
	done := make(chan interface{}, 1)
	go func() {
		defer func() {
			r := recover()
			if r != nil {
				r = panicInfo{Value: r, Stack: string(debug.Stack())}
			}
			done <- r
		}()
		f()
	}()
	select {
	case p := <-done:
		return p, false
	case <-time.After(d):
		return nil, true
	}
}

func c20RangeJob() Job {
	name := "ranges/parse-roundtrip"
	return Job{Name: name, Weight: 1, Run: func(deadline time.Time) *ScenResult {
		t0 := time.Now()
		r := newCaseResult()
		var texts []string
		for _, a := range c20Addrs {
			texts = append(texts, a, a+"~", "~"+a, " "+a, a+"-"+a)
			for _, b := range c20Addrs {
				texts = append(texts, a+"~"+b, a+"~"+b+"~"+a)
			}
		}
		texts = append(texts, "", "~", "x", "1.2.3", "1.2.3.4.5", "10.0.0.1/24", "256.0.0.1")
		for _, t := range texts {
			r.evals++
			got := nets.ParseIPRange(t)
			// model
			var want bool
			var f, l net.IP
			if strings.Contains(t, "~") {
				parts := strings.SplitN(t, "~", 2)
				f, l = net.ParseIP(parts[0]), net.ParseIP(parts[1])
				want = f != nil && l != nil && u32(f) <= u32(l)
			} else {
				f = net.ParseIP(t)
				l = f
				want = f != nil
			}
			r.distinct[hashOf(t, got != nil)] = true
			if (got != nil) != want {
				r.violate("C20", name, "range", "range-acceptance-differs-from-model", "ParseIPRange", fmt.Sprintf("%q: accepted=%v, model=%v", t, got != nil, want), []string{t})
				continue
			}
			if got == nil {
				continue
			}
			if len(r.samples) < 3 && r.evals%41 == 1 {
				r.samples = append(r.samples, fmt.Sprintf("%q -> %s size %d", t, got.String(), got.Size()))
			}
			if !got.First.Equal(f) || !got.Last.Equal(l) {
				r.violate("C20", name, "range", "range-decodes-to-other-bounds", "ParseIPRange", fmt.Sprintf("%q -> %v~%v", t, got.First, got.Last), []string{t})
			}
			full := u32(got.First) == 0 && u32(got.Last) == ^uint32(0)
			if !full && got.Size() != u32(got.Last)-u32(got.First)+1 {
				r.violate("C20", name, "range", "range-size-wrong", "Size", fmt.Sprintf("%q size %d", t, got.Size()), []string{t})
			}
			for _, a := range c20Addrs {
				ip := net.ParseIP(a)
				if got.Contains(ip) != (u32(ip) >= u32(got.First) && u32(ip) <= u32(got.Last)) {
					r.violate("C20", name, "range", "range-contains-differs-from-membership", "Contains", fmt.Sprintf("%q contains %s = %v", t, a, got.Contains(ip)), []string{t})
				}
			}
			// text round trip
			back := nets.ParseIPRange(got.String())
			if back == nil || !back.First.Equal(got.First) || !back.Last.Equal(got.Last) {
				r.violate("C20", name, "range", "range-string-roundtrip", "String", fmt.Sprintf("%q -> %q -> %v", t, got.String(), back), []string{t})
			}
			// JSON round trip
			data, err := json.Marshal(got)
			var back2 nets.IPRange
			if err == nil {
				err = json.Unmarshal(data, &back2)
			}
			if err != nil || !back2.First.Equal(got.First) || !back2.Last.Equal(got.Last) {
				r.violate("C20", name, "range", "range-json-roundtrip", "MarshalJSON", fmt.Sprintf("%q -> %s -> %v (%v)", t, data, back2, err), []string{t})
			}
		}
		return r.toScen(name, t0, map[string]int{"addresses": len(c20Addrs)})
	}}
}

// pool enumeration -----------------------------------------------------------------------------

type c20Subnet struct {
	CIDR     string
	Gateways []string // candidate gateways: inside (first/last host), outside
	Ranges   []string // range menu for this subnet
}

var c20Subnets = []c20Subnet{
	{"10.0.0.0/24", []string{"10.0.0.1", "10.0.0.254", "10.0.1.1"}, []string{"10.0.0.2", "10.0.0.3", "10.0.0.2~10.0.0.3", "10.0.0.4~10.0.0.5", "10.0.0.5~10.0.0.9", "10.0.0.250~10.0.0.255", "10.0.0.255~10.0.1.0", "10.0.0.9~10.0.0.5", "10.0.0.7"}},
	{"10.0.0.0/30", []string{"10.0.0.1"}, []string{"10.0.0.0", "10.0.0.1~10.0.0.2", "10.0.0.3", "10.0.0.3~10.0.0.4", "10.0.0.2"}},
	{"10.0.0.2/31", []string{"10.0.0.2"}, []string{"10.0.0.2", "10.0.0.3", "10.0.0.2~10.0.0.3", "10.0.0.1~10.0.0.2"}},
	{"10.0.0.1/32", []string{"10.0.0.1"}, []string{"10.0.0.1", "10.0.0.1~10.0.0.1", "10.0.0.0~10.0.0.1"}},
	{"0.0.0.0/24", []string{"0.0.0.1"}, []string{"0.0.0.0", "0.0.0.0~0.0.0.1", "0.0.0.2", "0.0.0.3~0.0.0.255", "0.0.0.255~0.0.1.0"}},
	{"255.255.255.0/24", []string{"255.255.255.1"}, []string{"255.255.255.2", "255.255.255.250~255.255.255.254", "255.255.255.254~255.255.255.255", "255.255.255.255", "255.255.255.250", "255.255.255.3~255.255.255.4"}},
}

func orderedLists(menu []string, maxLen int) [][]string {
	out := [][]string{{}}
	var rec func(cur []string)
	rec = func(cur []string) {
		if len(cur) > 0 {
			out = append(out, append([]string{}, cur...))
		}
		if len(cur) == maxLen {
			return
		}
		for _, m := range menu {
			dup := false
			for _, c := range cur {
				if c == m {
					dup = true
				}
			}
			if !dup {
				rec(append(cur, m))
			}
		}
	}
	rec(nil)
	return out
}

type c20Model struct {
	valid bool
	why   string
	set   map[uint32]bool
}

// modelPool is the set-of-integers model of a pool configuration.
func modelPool(subnet, gateway string, ips []string, nodeForm string) c20Model {
	if nodeForm == "missing" {
		return c20Model{why: "no node subnet"}
	}
	if gateway == "" {
		return c20Model{why: "no gateway"}
	}
	if subnet == "" {
		return c20Model{why: "no subnet"}
	}
	_, sn, err := net.ParseCIDR(subnet)
	if err != nil {
		return c20Model{why: "bad subnet"}
	}
	gw := net.ParseIP(gateway)
	// "the pool's subnet" is what the decoded pool reports: the gateway masked with the subnet's mask
	base := u32(gw.Mask(sn.Mask))
	ones, _ := sn.Mask.Size()
	var size uint64 = 1 << uint(32-ones)
	lo, hi := uint64(base), uint64(base)+size-1
	set := map[uint32]bool{}
	var prevLast uint64
	for i, t := range ips {
		rg := nets.ParseIPRange(t)
		if rg == nil {
			return c20Model{why: "bad range " + t}
		}
		f, l := uint64(u32(rg.First)), uint64(u32(rg.Last))
		if f < lo || l > hi {
			return c20Model{why: "range outside subnet " + t}
		}
		if i > 0 && f <= prevLast+1 {
			return c20Model{why: "ranges unsorted, overlapping or mergeable at " + t}
		}
		prevLast = l
		for x := f; x <= l; x++ {
			set[uint32(x)] = true
		}
	}
	return c20Model{valid: true, set: set}
}

func poolText(subnet, gateway string, ips []string, nodeForm string) string {
	m := map[string]interface{}{"ips": ips}
	if ips == nil {
		m["ips"] = []string{}
	}
	if subnet != "" {
		m["subnet"] = subnet
	}
	if gateway != "" {
		m["gateway"] = gateway
	}
	switch nodeForm {
	case "nodeSubnets":
		m["nodeSubnets"] = []string{"10.9.1.0/24"}
	case "unmasked+dup":
		m["nodeSubnets"] = []string{"10.9.1.7/24", "10.9.1.0/24", "10.9.2.0/24"}
	case "routableSubnet":
		m["routableSubnet"] = "10.9.1.9/24"
	}
	m["vlan"] = 7
	data, _ := json.Marshal(m)
	return string(data)
}

func poolFingerprint(p *floatingip.FloatingIPPool) string {
	var ns, rs []string
	for _, n := range p.NodeSubnets {
		ns = append(ns, n.String())
	}
	for _, r := range p.IPRanges {
		rs = append(rs, r.String())
	}
	return fmt.Sprintf("nodes=%v ranges=%v gw=%s mask=%s vlan=%d", ns, rs, p.Gateway, net.IP(p.Mask), p.Vlan)
}

func c20PoolJob(shard, nshards, maxRanges int) Job {
	name := fmt.Sprintf("pools/shard%d", shard)
	return Job{Name: name, Weight: 2, Run: func(deadline time.Time) *ScenResult {
		t0 := time.Now()
		r := newCaseResult()
		bounds := map[string]int{"ranges_per_pool": maxRanges}
		n := 0
		hangs := 0
		exposed := map[string]bool{}
		for _, sn := range c20Subnets {
			lists := orderedLists(sn.Ranges, maxRanges)
			for _, gw := range append(append([]string{}, sn.Gateways...), "") {
				for _, nodeForm := range []string{"nodeSubnets", "unmasked+dup", "routableSubnet", "missing"} {
					for _, ips := range lists {
						n++
						if n%nshards != shard {
							continue
						}
						if time.Now().After(deadline) {
							r.exhausted = false
							return r.toScen(name, t0, bounds)
						}
						if (gw == "" || nodeForm == "missing") && len(ips) > 1 {
							continue // missing-field cases do not need the full range product
						}
						c20PoolCase(r, name, sn.CIDR, gw, ips, nodeForm, exposed, &hangs)
					}
				}
			}
		}
		return r.toScen(name, t0, bounds)
	}}
}

func c20PoolCase(r *caseResult, scen, subnet, gw string, ips []string, nodeForm string, exposed map[string]bool, hangs *int) {
	text := poolText(subnet, gw, ips, nodeForm)
	r.evals++
	var pool floatingip.FloatingIPPool
	err := json.Unmarshal([]byte(text), &pool)
	m := modelPool(subnet, gw, ips, nodeForm)
	r.distinct[hashOf(text, err == nil)] = true
	if len(r.samples) < 3 && r.evals%499 == 1 {
		r.samples = append(r.samples, fmt.Sprintf("%s -> accepted=%v (model: %v %s)", text, err == nil, m.valid, m.why))
	}
	if (err == nil) != m.valid {
		class := "accepts-invalid"
		if m.valid {
			class = "rejects-valid"
		}
		r.violate("C20", scen, class, "acceptance-differs-from-model", strings.SplitN(m.why, " ", 3)[0]+"-"+lastAddrClass(ips), fmt.Sprintf("%s: accepted=%v err=%v, model valid=%v (%s)", text, err == nil, err, m.valid, m.why), []string{text})
		return
	}
	if err != nil {
		return
	}
	// accepted: size, membership, round trip
	if uint64(pool.Size()) != uint64(len(m.set)) {
		r.violate("C20", scen, "accepted", "size-differs-from-number-of-ips", "Size", fmt.Sprintf("%s: Size()=%d, distinct IPs %d", text, pool.Size(), len(m.set)), []string{text})
	}
	for _, a := range append(append([]string{}, c20Addrs[:11]...), "10.0.0.4", "10.0.0.6", "0.0.0.2", "255.255.255.250", "255.255.255.253") {
		ip := net.ParseIP(a)
		if pool.Contains(ip) != m.set[u32(ip)] {
			r.violate("C20", scen, "accepted", "contains-differs-from-membership", "Contains", fmt.Sprintf("%s: Contains(%s)=%v", text, a, pool.Contains(ip)), []string{text})
		}
	}
	data, err := json.Marshal(&pool)
	var back floatingip.FloatingIPPool
	if err == nil {
		err = json.Unmarshal(data, &back)
	}
	if err != nil || poolFingerprint(&back) != poolFingerprint(&pool) {
		r.violate("C20", scen, "accepted", "pool-json-roundtrip", "MarshalJSON", fmt.Sprintf("%s -> %s -> %s (%v)", text, data, poolFingerprint(&back), err), []string{text})
	}
	// what a fresh ConfigurePool exposes == the set (once per distinct range set)
	fp := fmt.Sprint(pool.IPRanges, pool.Gateway, net.IP(pool.Mask))
	if exposed[fp] || *hangs >= 2 {
		return
	}
	exposed[fp] = true
	var got []string
	_, timedOut := watchdog(10*time.Second, func() {
		w := world.New(world.Config{Pools: "[" + text + "]"})
		if err := w.Start(); err != nil {
			got = []string{"start failed: " + err.Error()}
			return
		}
		for _, s := range w.MemDump() {
			got = append(got, s.IP)
		}
	})
	r.evals++
	if timedOut {
		*hangs++
		r.violate("C20", scen, "accepted", "configure-pool-does-not-terminate", "ConfigurePool-"+lastAddrClass(ips), fmt.Sprintf("%s: ConfigurePool did not return within 10 s", text), []string{text})
		return
	}
	var want []string
	for x := range m.set {
		want = append(want, nets.IntToIP(x).String())
	}
	sort.Strings(want)
	sort.Strings(got)
	if fmt.Sprint(want) != fmt.Sprint(got) {
		r.violate("C20", scen, "accepted", "enumerated-ips-differ-from-set", "ConfigurePool", fmt.Sprintf("%s: exposes %v, set %v", text, got, want), []string{text})
	}
}

// lastAddrClass classifies the input for signatures: does a range end at the top of the address space?
func lastAddrClass(ips []string) string {
	for _, t := range ips {
		if strings.HasSuffix(t, "255.255.255.255") {
			return "range-ending-at-255.255.255.255"
		}
	}
	return "ordinary"
}

// rejected configurations change nothing --------------------------------------------------------

func c20RejectJob() Job {
	name := "reload/rejected-config-changes-nothing"
	return Job{Name: name, Weight: 1, Run: func(deadline time.Time) *ScenResult {
		t0 := time.Now()
		r := newCaseResult()
		good := poolText("10.0.0.0/24", "10.0.0.1", []string{"10.0.0.2~10.0.0.3"}, "nodeSubnets")
		good2 := poolText("10.0.0.0/24", "10.0.0.1", []string{"10.0.0.2~10.0.0.5"}, "nodeSubnets")
		var bad []string
		for _, sn := range c20Subnets[:2] {
			for _, ips := range orderedLists(sn.Ranges, 2) {
				for _, gw := range []string{sn.Gateways[0], ""} {
					if m := modelPool(sn.CIDR, gw, ips, "nodeSubnets"); !m.valid {
						bad = append(bad, poolText(sn.CIDR, gw, ips, "nodeSubnets"))
					}
				}
			}
		}
		bad = append(bad, "", "{", "null", `{"a":1}`, `[{"ips":"x"}]`, `[1]`, `"str"`)
		for _, b := range bad {
			for _, form := range []string{"alone", "after-good-pool", "before-good-pool"} {
				text := "[" + b + "]"
				switch form {
				case "after-good-pool":
					text = "[" + good2 + "," + b + "]"
				case "before-good-pool":
					text = "[" + b + "," + good2 + "]"
				}
				if !strings.HasPrefix(b, "{\"") && form == "alone" {
					text = b
				}
				var probe []*floatingip.FloatingIPPool
				if json.Unmarshal([]byte(text), &probe) == nil && validPools(probe) {
					continue // not actually an invalid configuration text
				}
				w := world.New(world.Config{Pools: "[" + good + "]", Nodes: nodesN1})
				if err := w.Start(); err != nil {
					panic(err)
				}
				_ = preAllocate(w, "10.0.0.2", "sts_ns_a_a-0", "u1")
				before := dumpNoTime(w.MemDump())
				w.ConfigMap = text
				err := w.Reload()
				r.evals++
				r.distinct[hashOf(text)] = true
				if len(r.samples) < 3 && r.evals%61 == 1 {
					r.samples = append(r.samples, fmt.Sprintf("reload with %s -> err=%v", text, err))
				}
				if err == nil {
					r.violate("C20", name, "reject", "invalid-configuration-accepted-on-reload", "ensureIPAMConf", text, []string{text})
				}
				if after := dumpNoTime(w.MemDump()); after != before {
					r.violate("C20", name, "reject", "rejected-configuration-changed-the-tables", "ensureIPAMConf", fmt.Sprintf("%s: %s -> %s", text, before, after), []string{text})
				}
				// the last good configuration is still the one in force: re-submitting it is a no-op, a new good one applies
				w.ConfigMap = "[" + good + "]"
				n0 := w.APICalls
				if err := w.Reload(); err != nil {
					r.violate("C20", name, "reject", "good-configuration-refused-after-a-bad-one", "ensureIPAMConf", text, []string{text})
				} else if w.APICalls-n0 > 1 {
					r.violate("C20", name, "reject", "last-configuration-forgotten-after-a-bad-one", "ensureIPAMConf", fmt.Sprintf("%s: re-submitting the running configuration caused %d API calls", text, w.APICalls-n0), []string{text})
				}
			}
		}
		return r.toScen(name, t0, map[string]int{"bad_texts": len(bad)})
	}}
}

func validPools(ps []*floatingip.FloatingIPPool) bool {
	for _, p := range ps {
		if p == nil {
			return false
		}
	}
	return true
}

func init() {
	register(&Property{ID: "C20", Level: "exploration", QuickS: 100, ThoroughS: 600,
		Assume: []string{"addresses from a 13-element boundary-heavy menu; 6 pod subnets (/24 /30 /31 /32, 0.0.0.0/24, 255.255.255.0/24) each with its own range menu; 'the pool's subnet' is read as what the decoded pool reports (gateway masked)",
			"0.0.0.0~255.255.255.255 (size does not fit 32 bits) is excluded as in the property's quantifier"},
		Rule: "(1) every range text built from the address menu (single, a~b incl. reversed, malformed) vs. a uint32 model: acceptance, bounds, Size, Contains, String and JSON round trip; (2) every pool = subnet x gateway(in/out/missing) x node-subnet form x ordered list of <=R ranges " +
			"from the subnet's menu: acceptance == model validity; accepted => Size/Contains/enumeration (fresh ConfigurePool) == the set, Marshal/Unmarshal round trip; (3) every invalid text alone / next to a valid pool submitted as a reload: error and nothing changes; " +
			"(4) every sequence of <= 3 (4) InsertIP / RemoveIP operations over a 10-address universe on 7 decoded pools vs. the set model (well-formed ranges, Size, Contains, enumeration, round trip, return values); " +
			"distinct/non-trivial = distinct (input text, accepted?) pairs",
		Jobs: func(tier string) []Job {
			maxR := 3
			if tier == "thorough" {
				maxR = 4
			}
			jobs := []Job{c20RangeJob(), c20RejectJob(), c20EditJob(tier)}
			for s := 0; s < 8; s++ {
				jobs = append(jobs, c20PoolJob(s, 8, maxR))
			}
			return jobs
		}})
	replayers["C20"] = replayDescOnly
}
