package props

import (
	"encoding/json"
	"flag"
	"fmt"
	"net"
	"net/http"
	"os"
	"path/filepath"
	"sort"
	"strings"
	"sync"
	"time"

	"tkestack.io/galaxy/pkg/api/docker"
	"tkestack.io/galaxy/pkg/gc"
)

// C17: GC removes only dead containers' state, and eventually all of it. The container runtime is faked at the protocol
// boundary (docker engine API over a unix socket); directories are real temp directories.

type fakeDocker struct {
	mu      sync.Mutex
	states  map[string]string // id -> running | exited | dead | notfound | err500 | refused
	calls   []string
	faultAt int // the faultAt-th inspect call (1-based, since reset) answers 500
	n       int
	ln      net.Listener
	unknown string // answer for ids that are not in states ("" = not found)
}

func (d *fakeDocker) ServeHTTP(w http.ResponseWriter, r *http.Request) {
	d.mu.Lock()
	defer d.mu.Unlock()
	parts := strings.Split(strings.Trim(r.URL.Path, "/"), "/")
	if len(parts) < 3 || parts[len(parts)-1] != "json" || parts[len(parts)-3] != "containers" {
		http.Error(w, "unsupported", http.StatusNotImplemented)
		return
	}
	id := parts[len(parts)-2]
	d.n++
	st, ok := d.states[id]
	if !ok {
		st = "notfound"
		if d.unknown != "" {
			st = d.unknown
		}
	}
	if d.faultAt > 0 && d.n == d.faultAt {
		st = "err500"
	}
	d.calls = append(d.calls, id+":"+st)
	switch st {
	case "running", "exited", "dead", "paused", "restarting", "created":
		w.Header().Set("Content-Type", "application/json")
		_ = json.NewEncoder(w).Encode(map[string]interface{}{"Id": id, "Name": "/k8s_POD_" + id, "State": map[string]interface{}{"Status": st, "Running": st == "running"}})
	case "notfound":
		w.Header().Set("Content-Type", "application/json")
		w.WriteHeader(http.StatusNotFound)
		_, _ = w.Write([]byte(`{"message":"No such container: ` + id + `"}`))
	case "refused":
		if hj, ok := w.(http.Hijacker); ok {
			if c, _, err := hj.Hijack(); err == nil {
				_ = c.Close()
				return
			}
		}
		http.Error(w, "gone", http.StatusBadGateway)
	default:
		http.Error(w, `{"message":"injected daemon error"}`, http.StatusInternalServerError)
	}
}

type gcHarness struct {
	dir     string
	d       *fakeDocker
	g       gc.GC
	mu      sync.Mutex
	cleaned []string
	cbFail  string // the port clean callback fails for this container id, every time (e.g. a torn port file)
}

func newGCHarness() (*gcHarness, error) {
	dir, err := os.MkdirTemp("/var/tmp", "galaxy-gc.")
	if err != nil {
		return nil, err
	}
	h := &gcHarness{dir: dir, d: &fakeDocker{states: map[string]string{}}}
	sock := filepath.Join(dir, "docker.sock")
	ln, err := net.Listen("unix", sock)
	if err != nil {
		return nil, err
	}
	h.d.ln = ln
	go func() { _ = http.Serve(ln, h.d) }()
	os.Unsetenv("CONTAINERD_HOST")
	os.Setenv("DOCKER_HOST", "unix://"+sock)
	os.Setenv("DOCKER_API_VERSION", "1.23")
	_ = flag.Set("gc_dirs", strings.Join([]string{filepath.Join(dir, "flannel"), filepath.Join(dir, "galaxy"), filepath.Join(dir, "galaxy", "port"), filepath.Join(dir, "absent")}, ","))
	_ = flag.Set("flannel_allocated_ip_dir", strings.Join([]string{filepath.Join(dir, "networks"), filepath.Join(dir, "networks", "galaxy-flannel")}, ","))
	cli, err := docker.NewDockerInterface()
	if err != nil {
		return nil, err
	}
	h.g = gc.NewFlannelGC(embedKubeClient(), cli, make(chan struct{}), func(id string) error {
		h.mu.Lock()
		h.cleaned = append(h.cleaned, id)
		fail := h.cbFail != "" && id == h.cbFail
		h.mu.Unlock()
		if fail {
			return fmt.Errorf("failed to read ports: unexpected end of JSON input")
		}
		return nil
	})
	return h, nil
}

func (h *gcHarness) close() {
	_ = h.d.ln.Close()
	_ = os.RemoveAll(h.dir)
}

// layout writes the directory contents for containers c0..c2 plus non-container entries.
func (h *gcHarness) layout(ids []string) map[string]string {
	for _, sub := range []string{"flannel", "galaxy", "networks"} {
		_ = os.RemoveAll(filepath.Join(h.dir, sub))
	}
	owner := map[string]string{} // relative path -> container id ("" = belongs to nobody / must never be removed)
	put := func(rel, content, id string) {
		p := filepath.Join(h.dir, rel)
		_ = os.MkdirAll(filepath.Dir(p), 0o755)
		_ = os.WriteFile(p, []byte(content), 0o644)
		owner[rel] = id
	}
	for i, id := range ids {
		put("flannel/"+id, `{"type":"galaxy-veth"}`, id)
		put("galaxy/"+id, `[{"NetworkType":"galaxy-flannel"}]`, id)
		put("galaxy/port/"+id, `[{"hostPort":52701,"containerPort":80,"protocol":"tcp"}]`, id)
		switch i {
		case 0:
			put(fmt.Sprintf("networks/172.16.0.%d", 10+i), id, id)
		case 1:
			put(fmt.Sprintf("networks/172.16.0.%d", 10+i), id+"\r\neth0", id)
		default:
			put(fmt.Sprintf("networks/galaxy-flannel/172.16.0.%d", 10+i), id+"\neth0", id)
		}
	}
	// entries that must never be removed
	put("networks/last_reserved_ip.0", "172.16.0.12", "")
	put("networks/lock", "", "")
	put("networks/172.16.0.99", "", "") // empty IP file
	_ = os.MkdirAll(filepath.Join(h.dir, "networks", "10.0.0.1"), 0o755)
	_ = os.MkdirAll(filepath.Join(h.dir, "flannel", "subdir"), 0o755)
	owner["networks/10.0.0.1/"] = ""
	owner["flannel/subdir/"] = ""
	return owner
}

func (h *gcHarness) exists(rel string) bool {
	_, err := os.Stat(filepath.Join(h.dir, strings.TrimSuffix(rel, "/")))
	return err == nil
}

func dead(st string) bool { return st == "exited" || st == "dead" || st == "notfound" }

func c17Job(shard, nshards int, tier string) Job {
	name := fmt.Sprintf("gc-rounds/shard%d", shard)
	return Job{Name: name, Weight: 2, Run: func(deadline time.Time) *ScenResult {
		t0 := time.Now()
		r := newCaseResult()
		h, err := newGCHarness()
		if err != nil {
			panic(err)
		}
		defer h.close()
		// paused, restarting and created containers exist and have not exited: their state is as untouchable as a running one's
		states := []string{"running", "exited", "dead", "notfound", "err500", "refused", "paused", "restarting", "created"}
		ids := []string{"c0aaaaaaaaaa", "c1bbbbbbbbbb", "c2cccccccccc"}
		n := 0
		for _, s0 := range states {
			for _, s1 := range states {
				for _, s2 := range states {
					n++
					if n%nshards != shard {
						continue
					}
					if time.Now().After(deadline) {
						r.exhausted = false
						return r.toScen(name, t0, nil)
					}
					st := map[string]string{ids[0]: s0, ids[1]: s1, ids[2]: s2}
					// fault-free run to learn the number of inspect calls of one round
					calls := c17Case(r, name, h, ids, st, 0)
					maxFault := calls
					if tier != "thorough" && maxFault > 6 {
						maxFault = 6
					}
					for k := 1; k <= maxFault; k++ {
						c17Case(r, name, h, ids, st, k)
					}
					// the port clean callback fails persistently for one container (unreadable port file, iptables failing)
					for _, id := range ids {
						h.cbFail = id
						c17Case(r, name, h, ids, st, 0)
						h.cbFail = ""
					}
				}
			}
		}
		return r.toScen(name, t0, map[string]int{"containers": 3, "states": len(states)})
	}}
}

// c17Case runs three GC rounds; the faultAt-th inspect call of the first round fails with 500.
func c17Case(r *caseResult, scen string, h *gcHarness, ids []string, st map[string]string, faultAt int) int {
	owner := h.layout(ids)
	h.d.mu.Lock()
	h.d.states = st
	h.d.calls, h.d.n, h.d.faultAt = nil, 0, faultAt
	h.d.mu.Unlock()
	h.cleaned = nil
	desc := fmt.Sprintf("containers %v, the %d-th inspect call of round 1 answers 500", st, faultAt)
	if faultAt == 0 {
		desc = fmt.Sprintf("containers %v, no injected error", st)
	}
	if h.cbFail != "" {
		desc += ", port clean callback always fails for " + h.cbFail
	}
	r.evals++
	gc.VerifRunOnce(h.g)
	h.d.mu.Lock()
	round1 := len(h.d.calls)
	answers := append([]string{}, h.d.calls...)
	h.d.faultAt = 0
	h.d.mu.Unlock()
	// safety after round 1: anything removed must belong to a container whose inspect answer was exited/dead/not found
	okToRemove := map[string]bool{}
	for _, a := range answers {
		p := strings.SplitN(a, ":", 2)
		if dead(p[1]) {
			okToRemove[p[0]] = true
		}
	}
	check := func(when string) {
		for rel, id := range owner {
			if h.exists(rel) {
				continue
			}
			switch {
			case id == "":
				r.violate("C17", scen, "safety", "non-container-entry-removed", "gc", fmt.Sprintf("%s: %s was removed (%s)", desc, rel, when), []string{desc})
			case !dead(st[id]):
				r.violate("C17", scen, "safety", "state-of-live-or-unknown-container-removed", st[id], fmt.Sprintf("%s: %s of container %s (%s) was removed (%s); inspect answers %v", desc, rel, id, st[id], when, answers), []string{desc})
			case !okToRemove[id]:
				r.violate("C17", scen, "safety", "state-removed-without-a-dead-answer", st[id], fmt.Sprintf("%s: %s removed although no inspect of %s answered exited/dead/not-found (%s); answers %v", desc, rel, id, when, answers), []string{desc})
			}
		}
	}
	check("after round 1")
	gc.VerifRunOnce(h.g)
	gc.VerifRunOnce(h.g)
	h.d.mu.Lock()
	for _, a := range h.d.calls[round1:] {
		p := strings.SplitN(a, ":", 2)
		if dead(p[1]) {
			okToRemove[p[0]] = true
		}
	}
	h.d.mu.Unlock()
	check("after round 3")
	// liveness: after two fault-free rounds nothing of a dead container is left
	var left []string
	for rel, id := range owner {
		if id != "" && dead(st[id]) && h.exists(rel) {
			left = append(left, rel)
		}
	}
	sort.Strings(left)
	if len(left) > 0 {
		r.violate("C17", scen, "liveness", "dead-container-state-survives-two-clean-rounds", "gc", fmt.Sprintf("%s: still there after two fault-free rounds: %v", desc, left), []string{desc})
	}
	// the port clean callback ran exactly for the removed state/port files of the gc dirs
	want := map[string]int{}
	for rel, id := range owner {
		if id != "" && !h.exists(rel) && !strings.HasPrefix(rel, "networks/") {
			want[id]++
		}
	}
	got := map[string]int{}
	for _, id := range h.cleaned {
		got[id]++
	}
	for id, n := range want {
		if got[id] < n {
			r.violate("C17", scen, "callback", "port-clean-callback-missing-for-removed-file", "gc", fmt.Sprintf("%s: %d files of %s removed, callback ran %d times", desc, n, id, got[id]), []string{desc})
		}
	}
	for id := range got {
		if !dead(st[id]) {
			r.violate("C17", scen, "safety", "port-mapping-cleaned-for-live-or-unknown-container", st[id], fmt.Sprintf("%s: callback ran for %s (%s)", desc, id, st[id]), []string{desc})
		}
	}
	var remaining []string
	for rel := range owner {
		if h.exists(rel) {
			remaining = append(remaining, rel)
		}
	}
	sort.Strings(remaining)
	r.distinct[hashOf(st, faultAt, h.cbFail, remaining)] = true
	if len(r.samples) < 3 && r.evals%131 == 1 {
		r.samples = append(r.samples, fmt.Sprintf("%s -> inspect answers %v; remaining %v", desc, answers, remaining))
	}
	return round1
}

func init() {
	register(&Property{ID: "C17", Level: "fault_enumeration", QuickS: 100, ThoroughS: 400,
		Assume: []string{"docker mode only: the runtime is a fake docker engine API on a unix socket (DOCKER_HOST); the containerd/CRI path and the veth collector are not exercised",
			"3 containers, each running / paused / restarting / created / exited / dead / not found / inspect error 500 / connection dropped; directories hold state files, port files, IP files in three content forms, plus entries that must never be removed (non-IP names, empty IP file, sub-directories)",
			"files in gc_dirs whose names are not container ids are, by the flag's own documentation, treated as ids; none are placed there"},
		Rule: "all 9^3 container state combinations x (no injected error | the k-th inspect call of the first round answering 500, for every k (quick: k<=6)) x three GC rounds through the run-once hook; safety after every round (nothing removed without a dead answer, nothing of live/unknown containers, no non-container entry), " +
			"liveness after two fault-free rounds, and port-clean callbacks (also with a callback that fails persistently for one container); plus the collector with the real daemon's callback over files and NAT rules the daemon wrote itself (6 x 2 container states x 5 port-file forms); distinct/non-trivial = distinct (states, fault position, remaining files)",
		Jobs: func(tier string) []Job {
			var jobs []Job
			for s := 0; s < 8; s++ {
				jobs = append(jobs, c17Job(s, 8, tier))
			}
			jobs = append(jobs, c17DaemonJob(tier))
			return jobs
		}})
	replayers["C17"] = replayDescOnly
}
