package props

import (
	"encoding/json"
	"fmt"
	"net"
	"sort"
	"strings"
	"time"

	"tkestack.io/galaxy/pkg/ipam/floatingip"
	"tkestack.io/galaxy/pkg/utils/nets"

	"verif.local/mc/coop"
	"verif.local/mc/coop/vmap"
	"verif.local/mc/world"
)

// ---------------------------------------------------------------------------------------------
// shared helpers for the configuration / input enumerations (C06, C08)

type caseResult struct {
	evals     int
	distinct  map[string]bool
	viols     []coop.Violation
	sigSeen   map[string]bool
	samples   []string
	exhausted bool
}

func newCaseResult() *caseResult {
	return &caseResult{distinct: map[string]bool{}, sigSeen: map[string]bool{}, exhausted: true}
}

func (r *caseResult) violate(prop, scen, class, clause, culprit, detail string, ops []string) {
	sig := prop + "|" + clause + "|" + culprit + "|" + class
	if r.sigSeen[sig] {
		return
	}
	r.sigSeen[sig] = true
	r.viols = append(r.viols, coop.Violation{Scenario: scen, Ops: ops, Trace: ops, Error: clause + ": " + detail, Signature: sig, Class: class})
}

func (r *caseResult) toScen(name string, t0 time.Time, bounds map[string]int) *ScenResult {
	sr := &ScenResult{Scenario: name, Executions: r.evals, Exhaustive: r.exhausted, WallS: time.Since(t0).Seconds(), Bounds: bounds, Violations: r.viols}
	for d := range r.distinct {
		sr.Distinct = append(sr.Distinct, d)
		sr.Nontrivial = append(sr.Nontrivial, d)
	}
	for _, s := range r.samples {
		j, _ := json.Marshal(map[string]string{"scenario": name, "case": s})
		sr.SampleObjs = append(sr.SampleObjs, j)
	}
	if !r.exhausted {
		sr.Stopped = "deadline"
	}
	return sr
}

// preAllocate allocates ip to key directly through the IPAM (allocation state set-up).
func preAllocate(w *world.World, ip, key, uid string) error {
	return w.Plugin.GetIpam().AllocateSpecificIP(key, net.ParseIP(ip), floatingip.Attr{Uid: uid})
}

func allIPs(cfg world.Config) []string {
	var out []string
	for _, p := range poolsOf(cfg.Pools) {
		for _, r := range p.IPRanges {
			for i := nets.IPToInt(r.First); i <= nets.IPToInt(r.Last); i++ {
				out = append(out, nets.IntToIP(i).String())
				if i == ^uint32(0) {
					break
				}
			}
		}
	}
	sort.Strings(out)
	return out
}

func nodeSubnetOf(cfg world.Config, nodeIP string) string {
	ip := net.ParseIP(nodeIP)
	pools := poolsOf(cfg.Pools)
	sort.Sort(floatingip.FloatingIPSlice(pools))
	for _, p := range pools {
		for _, sn := range p.NodeSubnets {
			if sn.Contains(ip) {
				return sn.String()
			}
		}
	}
	return ""
}

// ownedIPs returns the IPs held under key in memory or in the store (union, sorted).
func ownedIPs(w *world.World, key string) []string {
	set := map[string]bool{}
	for _, s := range w.MemDump() {
		if s.Alloc && s.Key == key {
			set[s.IP] = true
		}
	}
	for _, s := range w.StoreDump() {
		if s.Key == key {
			set[s.IP] = true
		}
	}
	var out []string
	for ip := range set {
		out = append(out, ip)
	}
	sort.Strings(out)
	return out
}

// ---------------------------------------------------------------------------------------------
// C08: multi-IP requests: one IP per range, all or nothing

var c08Cfg = world.Config{Pools: "[" +
	poolJSON([]string{"10.0.1.0/24"}, []string{"10.10.1.1~10.10.1.4"}, "10.10.1.0/24", "10.10.1.254", 0) + "," +
	poolJSON([]string{"10.0.1.0/24", "10.0.2.0/24"}, []string{"10.10.2.1~10.10.2.2"}, "10.10.2.0/24", "10.10.2.254", 2) + "]",
	Nodes: []world.NodeSpec{{Name: "n1", IP: "10.0.1.11"}, {Name: "n2", IP: "10.0.2.11"}}}

// c08CfgShared: the same addresses, but both pools declare one pod subnet (10.10.0.0/16): which node an IP is routable from is
// a matter of its pool, not of its subnet.
var c08CfgShared = world.Config{Pools: "[" +
	poolJSON([]string{"10.0.1.0/24"}, []string{"10.10.1.1~10.10.1.4"}, "10.10.0.0/16", "10.10.0.254", 0) + "," +
	poolJSON([]string{"10.0.1.0/24", "10.0.2.0/24"}, []string{"10.10.2.1~10.10.2.2"}, "10.10.0.0/16", "10.10.0.254", 0) + "]",
	Nodes: []world.NodeSpec{{Name: "n1", IP: "10.0.1.11"}, {Name: "n2", IP: "10.0.2.11"}}}

// c08CfgSharedDisjoint: one pod subnet again, but the two pools are reachable from different node subnets only; used with a
// restart before the request (which pool a stored address belongs to is decided anew when the tables are rebuilt).
var c08CfgSharedDisjoint = world.Config{Pools: "[" +
	poolJSON([]string{"10.0.1.0/24"}, []string{"10.10.1.1~10.10.1.4"}, "10.10.0.0/16", "10.10.0.254", 0) + "," +
	poolJSON([]string{"10.0.2.0/24"}, []string{"10.10.2.1~10.10.2.2"}, "10.10.0.0/16", "10.10.0.254", 0) + "]",
	Nodes: []world.NodeSpec{{Name: "n1", IP: "10.0.1.11"}, {Name: "n2", IP: "10.0.2.11"}}}

// menu of requested range lists (JSON arrays of range strings)
var c08Menu = [][]string{
	{"10.10.1.1"},              // single address
	{"10.10.1.2~10.10.1.3"},    // sub-range of pool A
	{"10.10.1.4~10.10.2.1"},    // spans pool A's end and pool B's start
	{"10.10.2.2~10.10.2.6"},    // partly outside any pool
	{"10.10.1.3", "10.10.2.2"}, // two segments (overlaps entries 1 and 3: never combined with them)
	{"10.10.9.1~10.10.9.2"},    // outside every pool
	{"10.10.2.1", "10.10.1.1"}, // two segments in descending order (overlaps 0 and 2)
}

func rangesOverlap(a, b []string) bool {
	for _, x := range a {
		rx := nets.ParseIPRange(x)
		for _, y := range b {
			ry := nets.ParseIPRange(y)
			if nets.IPToInt(rx.First) <= nets.IPToInt(ry.Last) && nets.IPToInt(ry.First) <= nets.IPToInt(rx.Last) {
				return true
			}
		}
	}
	return false
}

func c08Requests(maxK int) [][]int {
	var out [][]int
	var rec func(cur []int)
	rec = func(cur []int) {
		if len(cur) > 0 {
			out = append(out, append([]int{}, cur...))
		}
		if len(cur) == maxK {
			return
		}
		for i := range c08Menu {
			ok := true
			for _, j := range cur {
				if i == j || rangesOverlap(c08Menu[i], c08Menu[j]) {
					ok = false
				}
			}
			if ok {
				rec(append(cur, i))
			}
		}
	}
	rec(nil)
	return out
}

func rangesJSON(req []int) string {
	var parts []string
	for _, i := range req {
		parts = append(parts, `["`+strings.Join(c08Menu[i], `","`)+`"]`)
	}
	return "[" + strings.Join(parts, ",") + "]"
}

func inRangeList(ip string, list []string) bool {
	for _, r := range list {
		if nets.ParseIPRange(r).Contains(net.ParseIP(ip)) {
			return true
		}
	}
	return false
}

// c08States: assignments of each configured IP to free(0) / other key(1) / the pod's own key(2), with at most maxBusy non-free.
func c08States(ips []string, maxBusy int) [][]int {
	var out [][]int
	var rec func(i int, cur []int, busy int)
	rec = func(i int, cur []int, busy int) {
		if i == len(ips) {
			out = append(out, append([]int{}, cur...))
			return
		}
		rec(i+1, append(cur, 0), busy)
		if busy < maxBusy {
			rec(i+1, append(cur, 1), busy+1)
			rec(i+1, append(cur, 2), busy+1)
			// 3 = reserved by an administrator whose labelled object galaxy-ipam has not been notified of yet (at most one)
			has3 := false
			for _, c := range cur {
				if c == 3 {
					has3 = true
				}
			}
			if !has3 {
				rec(i+1, append(cur, 3), busy+1)
			}
		}
	}
	rec(0, nil, 0)
	return out
}

func c08Job(shard, nshards, maxK, maxBusy int) Job {
	name := fmt.Sprintf("multi-ip/shard%d", shard)
	return Job{Name: name, Weight: 2, Run: func(deadline time.Time) *ScenResult {
		t0 := time.Now()
		r := newCaseResult()
		ips := allIPs(c08Cfg)
		pod := world.PodSpec{Name: "a-0", NS: "ns", OwnerKind: "StatefulSet", OwnerName: "a"}
		key := keyOfSpec(pod).KeyInDB
		reqs := c08Requests(maxK)
		states := c08States(ips, maxBusy)
		n := 0
		for _, req := range reqs {
			for _, st := range states {
				for _, node := range []string{"n1", "n2"} {
					n++
					if n%nshards != shard {
						continue
					}
					if time.Now().After(deadline) {
						r.exhausted = false
						return r.toScen(name, t0, map[string]int{"k": maxK, "prealloc": maxBusy, "faults": 1})
					}
					c08Case(r, name, c08Cfg, "", ips, pod, key, req, st, node)
					c08Case(r, name, c08CfgShared, "shared-pod-subnet ", ips, pod, key, req, st, node)
					c08Case(r, name, c08CfgSharedDisjoint, "shared-pod-subnet/disjoint-node-subnets after-restart ", ips, pod, key, req, st, node)
				}
			}
		}
		return r.toScen(name, t0, map[string]int{"k": maxK, "prealloc": maxBusy, "faults": 1})
	}}
}

func c08Case(r *caseResult, scen string, cfg world.Config, cfgName string, ips []string, pod world.PodSpec, key string, req []int, st []int, node string) {
	pod.Ranges = rangesJSON(req)
	desc := fmt.Sprintf("%srequest %s state %v node %s", cfgName, pod.Ranges, stateStr(ips, st), node)
	build := func() *world.World {
		w := world.New(cfg)
		if err := w.Start(); err != nil {
			panic(err)
		}
		w.SetStatefulSet("ns", "a", 1)
		p := w.CreatePod(pod)
		for i, s := range st {
			switch s {
			case 1:
				_ = preAllocate(w, ips[i], "sts_ns_other_other-0", "uo")
			case 2:
				_ = preAllocate(w, ips[i], key, string(p.UID))
			case 3:
				_ = w.Reserve(ips[i])
				w.Pending = nil // the notification has not arrived
			}
		}
		if strings.Contains(cfgName, "after-restart") {
			if err := w.Restart(); err != nil {
				panic(err)
			}
		}
		return w
	}
	// kube-scheduler only binds to a node the filter offered
	w := build()
	offered, ferr := w.Filter(pod.Key())
	okNode := false
	for _, n := range offered {
		if n == node {
			okNode = true
		}
	}
	r.evals++
	if ferr != nil || !okNode {
		r.distinct[hashOf(desc, "filtered-out")] = true
		// "is bound with exactly k IPs" also has a completeness side: a node from which every range can be served (by the IP the
		// pod already holds in it, else by a free one) has to be offered
		if ferr == nil && c08Servable(cfg, ips, st, req, node, strings.Contains(cfgName, "after-restart")) {
			r.violate("C08", scen, fmt.Sprintf("k=%d", len(req)), "servable-node-not-offered", "filter", fmt.Sprintf("%s: every requested range can be served from %s, filter offered %v", desc, node, offered), []string{desc})
		}
		return
	}
	// fault-free run first to learn the number of API calls
	before := ownedIPs(w, key)
	p := w.Pods[pod.Key()]
	w.ResetFault(0)
	err := w.Bind(p.Namespace, p.Name, string(p.UID), node)
	ncalls := w.FaultCount()
	r.evals++
	c08Check(r, scen, cfg, desc, "none", w, pod, key, req, node, before, err)
	// stale filter: after Filter, other pods take every free IP of the first requested range that is routable from the node
	{
		w := build()
		p := w.Pods[pod.Key()]
		_, _ = w.Filter(pod.Key())
		taken := 0
		for i, ip := range ips {
			if st[i] == 0 && inRangeList(ip, c08Menu[req[0]]) && routableNodes(cfg, ip)[node] {
				if preAllocate(w, ip, "sts_ns_thief_thief-0", "ut") == nil {
					taken++
				}
			}
		}
		if taken > 0 {
			before := ownedIPs(w, key)
			err := w.Bind(p.Namespace, p.Name, string(p.UID), node)
			r.evals++
			c08Check(r, scen, cfg, desc+" (free routable IPs of the first range taken after Filter)", "stale-filter", w, pod, key, req, node, before, err)
			r.distinct[hashOf(desc, "stale", err == nil, ownedIPs(w, key))] = true
		}
	}
	r.distinct[hashOf(desc, 0, err == nil, ownedIPs(w, key))] = true
	if len(r.samples) < 3 && r.evals%173 == 1 {
		r.samples = append(r.samples, fmt.Sprintf("%s -> err=%v owned=%v", desc, err, ownedIPs(w, key)))
	}
	for _, v := range st {
		if v == 3 {
			// the creation of the reserved address fails by itself (AlreadyExists): that is the single failure of this case, no
			// further fault is injected
			return
		}
	}
	for k := 1; k <= ncalls; k++ {
		w := build()
		p := w.Pods[pod.Key()]
		_, _ = w.Filter(pod.Key())
		before := ownedIPs(w, key)
		w.ResetFault(k)
		err := w.Bind(p.Namespace, p.Name, string(p.UID), node)
		w.ResetFault(0)
		r.evals++
		failed := ""
		for _, l := range w.APILog {
			if strings.HasPrefix(l, "FAULT ") {
				failed = strings.Fields(l)[1] + "-" + strings.Fields(l)[2]
			}
		}
		c08Check(r, scen, cfg, desc+fmt.Sprintf(" fault@%d(%s)", k, failed), "fault:"+failed, w, pod, key, req, node, before, err)
		r.distinct[hashOf(desc, k, err == nil, ownedIPs(w, key))] = true
	}
}

// c08Servable: every requested range has an IP routable from node that the pod holds already or, failing that, one the tables
// show as free (a reservation the IPAM has not seen counts as free here: Filter cannot know better; after a restart the tables
// have been rebuilt from the store and show it). A range in which the pod holds more than one IP is not judged.
func c08Servable(cfg world.Config, ips []string, st []int, req []int, node string, reservationSeen bool) bool {
	for _, ri := range req {
		var own, free []string
		for i, ip := range ips {
			if !inRangeList(ip, c08Menu[ri]) {
				continue
			}
			switch st[i] {
			case 2:
				own = append(own, ip)
			case 0, 3:
				if st[i] == 3 && reservationSeen {
					continue
				}
				if routableNodes(cfg, ip)[node] {
					free = append(free, ip)
				}
			}
		}
		switch {
		case len(own) > 1:
			return false
		case len(own) == 1:
			if !routableNodes(cfg, own[0])[node] {
				return false
			}
		case len(free) == 0:
			return false
		}
	}
	return true
}

func stateStr(ips []string, st []int) string {
	var b []string
	for i, s := range st {
		if s == 1 {
			b = append(b, ips[i]+"=other")
		} else if s == 2 {
			b = append(b, ips[i]+"=own")
		} else if s == 3 {
			b = append(b, ips[i]+"=reserved-not-yet-seen")
		}
	}
	return "{" + strings.Join(b, " ") + "}"
}

func c08Check(r *caseResult, scen string, cfg world.Config, desc, mode string, w *world.World, pod world.PodSpec, key string, req []int, node string, before []string, err error) {
	class := fmt.Sprintf("k=%d", len(req))
	after := ownedIPs(w, key)
	// an administrator's reservation is never taken over or removed, whether the bind succeeds or fails
	st := storeByIP(w)
	for ip := range w.AdminReserved {
		if so, ok := st[ip]; !ok || !so.Reserved || so.Key != "admin-reserved" {
			r.violate("C08", scen, class, "administrator-reservation-removed-or-taken-over", mode, fmt.Sprintf("%s: %s was reserved by an administrator, the store now has {%v present=%v}", desc, ip, so, ok), []string{desc})
		}
	}
	if err != nil {
		// all or nothing: the IPs under the pod's key are what they were before the call
		if fmt.Sprint(after) != fmt.Sprint(before) {
			r.violate("C08", scen, class, "partial-allocation-after-failed-bind", mode, fmt.Sprintf("%s: bind failed (%v) but the pod's IPs went from %v to %v", desc, err, before, after), []string{desc})
		}
		return
	}
	if len(w.Bindings) == 0 {
		r.violate("C08", scen, class, "bind-ok-without-binding", mode, desc, []string{desc})
		return
	}
	b := w.Bindings[len(w.Bindings)-1]
	if len(b.IPs) != len(req) {
		r.violate("C08", scen, class, "wrong-number-of-ips", mode, fmt.Sprintf("%s: got %v", desc, b.IPs), []string{desc})
		return
	}
	seen := map[string]bool{}
	routable := func(ip string) bool { return routableNodes(cfg, ip)[node] }
	for i, ip := range b.IPs {
		if seen[ip] {
			r.violate("C08", scen, class, "duplicate-ip", mode, fmt.Sprintf("%s: got %v", desc, b.IPs), []string{desc})
		}
		seen[ip] = true
		if !inRangeList(ip, c08Menu[req[i]]) {
			r.violate("C08", scen, class, "ip-outside-its-range", mode, fmt.Sprintf("%s: %d-th IP %s not in %v (annotation %v)", desc, i, ip, c08Menu[req[i]], b.IPs), []string{desc})
		}
		if !routable(ip) {
			r.violate("C08", scen, class, "ip-not-routable-from-node", mode, fmt.Sprintf("%s: %s", desc, ip), []string{desc})
		}
		found := false
		for _, o := range after {
			if o == ip {
				found = true
			}
		}
		if !found {
			r.violate("C08", scen, class, "annotated-ip-not-owned", mode, fmt.Sprintf("%s: %s not under the pod's key %v", desc, ip, after), []string{desc})
		}
	}
}

// ---------------------------------------------------------------------------------------------
// C06: filter-approved nodes can be bound and get a routable IP

var c06Shapes = []string{
	poolJSON([]string{"10.0.1.0/24"}, []string{"10.10.1.1~10.10.1.2"}, "10.10.1.0/24", "10.10.1.254", 0),                // own node subnet N1
	poolJSON([]string{"10.0.2.0/24"}, []string{"10.10.2.1~10.10.2.2"}, "10.10.2.0/24", "10.10.2.254", 2),                // own node subnet N2
	poolJSON([]string{"10.0.1.0/24"}, []string{"10.10.1.4", "10.10.1.8~10.10.1.9"}, "10.10.1.0/24", "10.10.1.254", 0),   // two ranges with a hole that holds the range of the next shape (same pod subnet)
	poolJSON([]string{"10.0.2.0/24"}, []string{"10.10.1.5~10.10.1.6"}, "10.10.1.0/24", "10.10.1.254", 0),                // shares the pod subnet of shape 0, disjoint range, other node subnet
	poolJSON([]string{"10.0.1.0/24"}, []string{"10.20.0.1~10.20.0.2"}, "10.20.0.0/16", "10.20.0.254", 3),                // node subnet N1 shared with shape 0, other mask/gateway/VLAN
	poolJSON([]string{"10.0.3.1/32"}, []string{"10.30.0.1"}, "10.30.0.0/24", "10.30.0.254", 0),                          // /32 node subnet
	poolJSON([]string{"10.0.1.0/24", "10.0.2.0/24"}, []string{"10.40.0.1~10.40.0.2"}, "10.40.0.0/24", "10.40.0.254", 4), // pool on two node subnets
}

var c06Nodes = []world.NodeSpec{{Name: "n1", IP: "10.0.1.11"}, {Name: "n2", IP: "10.0.2.11"}, {Name: "n3", IP: "10.0.3.1"}, {Name: "n9", IP: "10.9.9.9"}}

func c06Configs(maxPools int) []world.Config {
	var out []world.Config
	n := len(c06Shapes)
	for mask := 1; mask < 1<<n; mask++ {
		var sel []string
		for i := 0; i < n; i++ {
			if mask&(1<<i) != 0 {
				sel = append(sel, c06Shapes[i])
			}
		}
		if len(sel) > maxPools {
			continue
		}
		out = append(out, world.Config{Pools: "[" + strings.Join(sel, ",") + "]", Nodes: c06Nodes})
	}
	return out
}

type c06Pod struct {
	Name    string
	Spec    world.PodSpec
	Holder  string // IP pre-allocated to the pod's key ("" none)
	Reserve string // IP pre-allocated to the deployment's reserve key
	// Reserve2: a second reserve IP (in another pool); Rot: iteration order over the tables while the case runs
	Reserve2 string
	Rot      int
}

func c06Pods(cfg world.Config, ips []string) []c06Pod {
	sts := world.PodSpec{Name: "a-0", NS: "ns", OwnerKind: "StatefulSet", OwnerName: "a"}
	out := []c06Pod{{Name: "fresh-default", Spec: sts}}
	stsImm := sts
	stsImm.Policy = "immutable"
	for _, ip := range ips {
		out = append(out, c06Pod{Name: "holder:" + ip, Spec: stsImm, Holder: ip})
	}
	// requested ranges: every single IP, every pair of distinct IPs (k=2), and one range spanning everything
	for _, ip := range ips {
		s := sts
		s.Ranges = `[["` + ip + `"]]`
		out = append(out, c06Pod{Name: "range1:" + ip, Spec: s})
	}
	for i, a := range ips {
		for j, b := range ips {
			if i < j {
				s := sts
				s.Ranges = `[["` + a + `"],["` + b + `"]]`
				out = append(out, c06Pod{Name: "range2:" + a + "+" + b, Spec: s})
			}
		}
	}
	// a pod that already holds the IP of one of its two requested ranges (either position)
	for i, a := range ips {
		for j, b := range ips {
			if i != j {
				s := stsImm
				s.Ranges = `[["` + a + `"],["` + b + `"]]`
				out = append(out, c06Pod{Name: "held-range2:" + a + "+" + b, Spec: s, Holder: a})
				s.Ranges = `[["` + b + `"],["` + a + `"]]`
				out = append(out, c06Pod{Name: "held-range2:" + b + "+" + a + "/second", Spec: s, Holder: a})
			}
		}
	}
	if len(ips) > 1 {
		s := sts
		s.Ranges = `[["` + ips[0] + `","` + ips[len(ips)-1] + `"]]`
		out = append(out, c06Pod{Name: "range-two-segments", Spec: s})
	}
	dp := world.PodSpec{Name: "d-r1-x", NS: "ns", OwnerKind: "ReplicaSet", OwnerName: "d-r1", Policy: "immutable"}
	for _, ip := range ips {
		out = append(out, c06Pod{Name: "dp-reserve:" + ip, Spec: dp, Reserve: ip})
	}
	// the app's reserve holds two IPs of different pools; which one a replacement pod gets must not depend on the order in
	// which the table is walked
	for i, a := range ips {
		for j, b := range ips {
			if i < j && poolIndexOf(cfg, a) != poolIndexOf(cfg, b) {
				for rot := 0; rot < 3; rot++ {
					out = append(out, c06Pod{Name: fmt.Sprintf("dp-reserve2:%s+%s/order%d", a, b, rot), Spec: dp, Reserve: a, Reserve2: b, Rot: rot})
				}
			}
		}
	}
	return out
}

// poolIndexOf returns the index of the pool of cfg that holds ip (-1 if none).
func poolIndexOf(cfg world.Config, ip string) int {
	for i, p := range poolsOf(cfg.Pools) {
		if p.Contains(net.ParseIP(ip)) {
			return i
		}
	}
	return -1
}

func subsetsUpTo(items []string, k int) [][]string {
	var out [][]string
	var rec func(i int, cur []string)
	rec = func(i int, cur []string) {
		if i == len(items) {
			out = append(out, append([]string{}, cur...))
			return
		}
		rec(i+1, cur)
		if len(cur) < k {
			rec(i+1, append(cur, items[i]))
		}
	}
	rec(0, nil)
	return out
}

func c06Job(shard, nshards, maxPools, maxBusy int) Job {
	name := fmt.Sprintf("topologies/shard%d", shard)
	return Job{Name: name, Weight: 2, Run: func(deadline time.Time) *ScenResult {
		t0 := time.Now()
		r := newCaseResult()
		bounds := map[string]int{"pools": maxPools, "busy_ips": maxBusy}
		n := 0
		for ci, cfg := range c06Configs(maxPools) {
			ips := allIPs(cfg)
			for _, busy := range subsetsUpTo(ips, maxBusy) {
				for _, pd := range c06Pods(cfg, ips) {
					n++
					if n%nshards != shard {
						continue
					}
					if time.Now().After(deadline) {
						r.exhausted = false
						return c06Scen(r.toScen(name, t0, bounds), r)
					}
					c06Case(r, name, ci, cfg, ips, busy, pd)
				}
			}
		}
		return c06Scen(r.toScen(name, t0, bounds), r)
	}}
}

// c06BaseCfg: a configuration with one coarse node subnet covering n1..n3; the instance serves a request under it (and so has
// seen the nodes) before the configuration under test is loaded at run time.
var c06BaseCfg = "[" + poolJSON([]string{"10.0.0.0/16"}, []string{"10.99.0.1"}, "10.99.0.0/24", "10.99.0.254", 0) + "]"

var c06FromBase bool
var c06ReleasedAfterFault bool

func c06Case(r *caseResult, scen string, ci int, cfg world.Config, ips, busy []string, pd c06Pod) {
	c06CaseR(r, scen, ci, cfg, ips, busy, pd, false)
	if len(busy) <= 1 && pd.Holder == "" && pd.Reserve == "" && pd.Reserve2 == "" {
		// the same case on an instance that ran under another configuration before and loads this one at run time
		c06FromBase = true
		c06CaseR(r, scen, ci, cfg, ips, busy, pd, false)
		c06FromBase = false
	}
	if len(busy) == 1 && pd.Holder == "" && pd.Reserve == "" && pd.Reserve2 == "" {
		// the same case with the busy address given back meanwhile: the first release met a failing store call, the retry
		// succeeded (what Filter counts as free must be what Bind can take)
		c06ReleasedAfterFault = true
		c06CaseR(r, scen, ci, cfg, ips, busy, pd, false)
		c06ReleasedAfterFault = false
	}
	if (len(busy) > 0 || pd.Holder != "" || pd.Reserve != "") && pd.Reserve2 == "" {
		// the same case after a restart of galaxy-ipam (tables rebuilt from the store)
		c06CaseR(r, scen, ci, cfg, ips, busy, pd, true)
	}
}

func c06CaseR(r *caseResult, scen string, ci int, cfg world.Config, ips, busy []string, pd c06Pod, restart bool) {
	isBusy := map[string]bool{}
	for _, b := range busy {
		isBusy[b] = true
	}
	if pd.Holder != "" && isBusy[pd.Holder] || pd.Reserve != "" && isBusy[pd.Reserve] || pd.Reserve2 != "" && isBusy[pd.Reserve2] {
		return
	}
	vmap.Rotation = pd.Rot
	defer func() { vmap.Rotation = 0 }()
	desc := fmt.Sprintf("config#%d %s busy=%v pod=%s restart=%v", ci, cfg.Pools, busy, pd.Name, restart)
	class := strings.SplitN(pd.Name, ":", 2)[0]
	released := c06ReleasedAfterFault
	if released {
		desc += " (the busy address released again: first attempt with a failing store call, then the retry)"
		isBusy = map[string]bool{}
	}
	fromBase := c06FromBase
	if fromBase {
		desc += " (loaded at run time over a configuration with one coarse node subnet)"
	}
	build := func() *world.World {
		var w *world.World
		if fromBase {
			base := cfg
			base.Pools = c06BaseCfg
			w = world.New(base)
			if err := w.Start(); err != nil {
				panic(err)
			}
			seen := world.PodSpec{Name: "seen-0", NS: "ns"}
			w.CreatePod(seen)
			_, _ = w.Filter(seen.Key())
			w.DeletePod(seen.Key())
			w.Pending = nil
			w.ConfigMap = cfg.Pools
			if err := w.Reload(); err != nil {
				panic(err)
			}
		} else {
			w = world.New(cfg)
			if err := w.Start(); err != nil {
				panic(err)
			}
		}
		w.SetStatefulSet("ns", "a", 1)
		w.SetDeployment("ns", "d", 1)
		p := w.CreatePod(pd.Spec)
		for _, b := range busy {
			_ = preAllocate(w, b, "sts_ns_other_other-0", "uo")
		}
		if released {
			for _, b := range busy {
				w.ResetFault(1)
				_ = w.Plugin.GetIpam().Release("sts_ns_other_other-0", net.ParseIP(b))
				w.ResetFault(0)
				_ = w.Plugin.GetIpam().Release("sts_ns_other_other-0", net.ParseIP(b))
			}
		}
		k := keyOfSpec(pd.Spec)
		if pd.Holder != "" {
			_ = w.Plugin.GetIpam().AllocateSpecificIP(k.KeyInDB, net.ParseIP(pd.Holder), floatingip.Attr{Policy: 1, Uid: string(p.UID)})
		}
		if pd.Reserve != "" {
			_ = w.Plugin.GetIpam().AllocateSpecificIP(k.PoolPrefix(), net.ParseIP(pd.Reserve), floatingip.Attr{Policy: 1})
		}
		if pd.Reserve2 != "" {
			_ = w.Plugin.GetIpam().AllocateSpecificIP(k.PoolPrefix(), net.ParseIP(pd.Reserve2), floatingip.Attr{Policy: 1})
		}
		if restart {
			if err := w.Restart(); err != nil {
				panic(err)
			}
		}
		return w
	}
	w := build()
	offered, ferr := w.Filter(pd.Spec.Key())
	r.evals++
	sort.Strings(offered)
	r.distinct[hashOf(ci, busy, pd.Name, restart, fromBase, released, offered, ferr != nil)] = true
	if len(r.samples) < 3 && r.evals%311 == 1 {
		r.samples = append(r.samples, fmt.Sprintf("%s -> offered %v err=%v", desc, offered, ferr))
	}
	// reference: which nodes have a free routable IP
	freeOn := map[string]bool{}
	for _, n := range cfg.Nodes {
		for _, ip := range ips {
			if !isBusy[ip] && ip != pd.Holder && ip != pd.Reserve && ip != pd.Reserve2 && routableNodes(cfg, ip)[n.Name] {
				freeOn[n.Name] = true
			}
		}
	}
	switch class {
	case "fresh-default":
		var want []string
		for n := range freeOn {
			want = append(want, n)
		}
		sort.Strings(want)
		if ferr == nil && fmt.Sprint(want) != fmt.Sprint(offered) {
			r.violate("C06", scen, class, "offered-set-differs-from-free-routable-nodes", "filter", fmt.Sprintf("%s: offered %v, nodes with a free routable IP %v", desc, offered, want), []string{desc})
		}
	case "holder", "held-range2":
		for _, n := range offered {
			if !routableNodes(cfg, pd.Holder)[n] {
				r.violate("C06", scen, class, "holder-offered-unroutable-node", "filter", fmt.Sprintf("%s: offered %v", desc, offered), []string{desc})
			}
		}
	}
	// every offered node must be bindable (on a replayed copy of the same state) with a routable, correctly described IP
	for _, node := range offered {
		w2 := build()
		if _, err := w2.Filter(pd.Spec.Key()); err != nil {
			continue
		}
		p := w2.Pods[pd.Spec.Key()]
		err := w2.Bind(p.Namespace, p.Name, string(p.UID), node)
		r.evals++
		if err != nil {
			if strings.Contains(err.Error(), "waiting for delete event") {
				continue
			}
			r.violate("C06", scen, class, "bind-fails-on-offered-node", "bind", fmt.Sprintf("%s: filter offered %v but bind on %s failed: %v", desc, offered, node, err), []string{desc})
			continue
		}
		b := w2.Bindings[len(w2.Bindings)-1]
		for i, ip := range b.IPs {
			if !routableNodes(cfg, ip)[node] {
				r.violate("C06", scen, class, "bound-ip-not-routable", "bind", fmt.Sprintf("%s: node %s got %s", desc, node, ip), []string{desc})
			}
			pool := poolOfIP(cfg, ip)
			info := b.Infos[i]
			if pool == nil {
				r.violate("C06", scen, class, "bound-ip-outside-config", "bind", fmt.Sprintf("%s: %s", desc, ip), []string{desc})
				continue
			}
			if info.IP == nil || net.IP(info.IP.Mask).String() != net.IP(pool.Mask).String() || !info.Gateway.Equal(pool.Gateway) || info.Vlan != pool.Vlan {
				r.violate("C06", scen, class, "ipinfo-not-from-the-ips-pool", "bind", fmt.Sprintf("%s: %s written with mask %v gw %v vlan %d, pool has mask %v gw %v vlan %d",
					desc, ip, info.IP, info.Gateway, info.Vlan, net.IP(pool.Mask), pool.Gateway, pool.Vlan), []string{desc})
			}
		}
	}
	// stale filter: between Filter and Bind other pods take every free IP that is routable from the offered node; Bind must
	// then fail or still hand out an IP that is routable from that node
	for _, node := range offered {
		w3 := build()
		if _, err := w3.Filter(pd.Spec.Key()); err != nil {
			continue
		}
		taken := 0
		for _, ip := range ips {
			if !isBusy[ip] && ip != pd.Holder && ip != pd.Reserve && ip != pd.Reserve2 && routableNodes(cfg, ip)[node] {
				if preAllocate(w3, ip, "sts_ns_thief_thief-0", "ut") == nil {
					taken++
				}
			}
		}
		if taken == 0 {
			continue
		}
		p := w3.Pods[pd.Spec.Key()]
		nb := len(w3.Bindings)
		err := w3.Bind(p.Namespace, p.Name, string(p.UID), node)
		r.evals++
		if err != nil || len(w3.Bindings) == nb {
			continue
		}
		for _, ip := range w3.Bindings[len(w3.Bindings)-1].IPs {
			if !routableNodes(cfg, ip)[node] {
				r.violate("C06", scen, class, "bound-ip-not-routable-after-stale-filter", "bind", fmt.Sprintf("%s: the free IPs routable from %s were taken after Filter; Bind on %s still succeeded with %s", desc, node, node, ip), []string{desc})
			}
		}
	}
}

func init() {
	register(&Property{ID: "C08", Level: "fault_enumeration", QuickS: 100, ThoroughS: 900,
		Assume: append([]string{"fixed two-pool configuration; request menu of 7 range lists; pre-allocation states free/other/own per configured IP"}, assumeIPAM...),
		Rule: "all ordered lists of k<=K pairwise-disjoint range lists from a 7-entry menu x all pre-allocation states (each of the 6 configured IPs free / held by another key / already held by the pod, at most `prealloc` busy) x node in {n1,n2}; " +
			"the real Bind is run fault-free and once per API-call index with that call failing; oracle: success => k distinct IPs, i-th in i-th list, routable, annotation order = request order; failure => the pod's IP set is unchanged; " +
			"plus every schedule (bounded preemptions) of a two-range bind next to the pod-IP sync adopting an address inside a requested range: bound => exactly the k bound IPs held in tables and store, refused => none; " +
			"distinct/non-trivial = distinct (request, state, node, fault position, outcome, resulting IP set)",
		Jobs: func(tier string) []Job {
			k, busy := 3, 3
			if tier == "thorough" {
				k, busy = 3, 6
			}
			var jobs []Job
			for s := 0; s < 16; s++ {
				jobs = append(jobs, c08Job(s, 16, k, busy))
			}
			for _, sc := range c08ConcurrentScenarios(tier) {
				jobs = append(jobs, ExploreJob("C08", sc, oracleC08Concurrent))
			}
			return append(jobs, c08DpReserveJob())
		}})
	replayers["C08"] = func(tier string, v coop.Violation) int {
		if len(v.Choices) > 0 {
			return replayExplore("C08", c08ConcurrentScenarios(tier), oracleC08Concurrent, v)
		}
		return replayDescOnly(tier, v)
	}
	register(&Property{ID: "C06", Level: "model_checking", QuickS: 100, ThoroughS: 900,
		Assume: append([]string{"pool shapes from a 6-entry menu (node subnets pairwise identical or disjoint), 4 nodes (one per node subnet + one outside)"}, assumeIPAM...),
		Rule: "all configurations of 1..P pools from the shape menu x all allocation states with at most B busy IPs x pods {fresh default, holder of each IP, 1 and 2 requested single-IP ranges, two-segment range, holder of one of two requested ranges, immutable deployment with each reserve IP}; " +
			"state = (configuration, allocation state, pod); transitions = the real Filter and, for every offered node, the real Bind on a replayed copy; reference = set arithmetic over the configuration",
		Jobs: func(tier string) []Job {
			p, b := 3, 3
			if tier == "thorough" {
				p, b = 4, 4
			}
			var jobs []Job
			for s := 0; s < 16; s++ {
				jobs = append(jobs, c06Job(s, 16, p, b))
			}
			for _, sc := range c06ConcurrentScenarios(tier) {
				jobs = append(jobs, ExploreJob("C06", sc, oracleC06Concurrent))
			}
			return jobs
		}})
	replayers["C06"] = func(tier string, v coop.Violation) int {
		if len(v.Choices) > 0 {
			return replayExplore("C06", c06ConcurrentScenarios(tier), oracleC06Concurrent, v)
		}
		return replayDescOnly(tier, v)
	}
}

func replayDescOnly(tier string, v coop.Violation) int {
	fmt.Println("case:", v.Ops)
	fmt.Println(v.Error)
	fmt.Println("(input-enumeration counterexamples carry the complete case description; re-run the check to re-evaluate it)")
	return 2
}

func c06Scen(sr *ScenResult, r *caseResult) *ScenResult {
	sr.States = len(r.distinct)
	sr.Transitions = r.evals
	sr.MaxDepth = 2
	return sr
}
