package props

import (
	"fmt"
	"os"
	"path/filepath"
	"sort"
	"strings"
	"time"
)

// C14, daemon side: host ports through the life cycle of sandboxes as the kubelet drives it. Histories of ADD / DEL
// requests for the containers x1, x2 (two successive sandboxes of pod hp-x), y1 (pod hp-y, another port) and z1 (pod
// hp-z, which wants hp-x's port) against the real daemon with the real port mapping handler (real sockets, NAT rules
// in the netfilter simulator). Only kubelet-legal histories: a container id is added at most once, the second sandbox
// of a pod is only added after the first was torn down; DEL may come at any time and any number of times.
//
// Model: live[pod] = the container whose ADD succeeded and that has not been deleted since. After every request:
// the host port of a pod is bound and tracked and its NAT rules exist iff the pod has a live sandbox; an ADD fails iff
// its port is held by another pod; after the last tear-down nothing is left.

type hpReq struct {
	add bool
	c   string
}

func (r hpReq) String() string {
	if r.add {
		return "ADD(" + r.c + ")"
	}
	return "DEL(" + r.c + ")"
}

func c14DaemonJob(shard, nshards int, base int32, tier string) Job {
	name := fmt.Sprintf("daemon-hostport-histories/shard%d", shard)
	return Job{Name: name, Weight: 3, Run: func(deadline time.Time) *ScenResult {
		t0 := time.Now()
		r := newCaseResult()
		h, err := newCNIHarness(daemonConf{Defaults: []string{"a"}})
		if err != nil {
			panic(err)
		}
		defer h.close()
		podOf := map[string]string{"x1": "hp-x", "x2": "hp-x", "y1": "hp-y", "z1": "hp-z"}
		portOf := map[string]int32{"hp-x": base + 17, "hp-y": base + 18, "hp-z": base + 17}
		for pod, port := range portOf {
			h.putPod(cniPod{Name: pod, Networks: "a", HostPort: port})
		}
		depth := 4
		if tier == "thorough" {
			depth = 5
		}
		var ops []hpReq
		for _, c := range []string{"x1", "x2", "y1", "z1"} {
			ops = append(ops, hpReq{true, c}, hpReq{false, c})
		}
		natOf := func(pod string) []string {
			var out []string
			for _, l := range strings.Split(h.kern.Save("nat"), "\n") {
				if strings.Contains(l, pod+" hostport") {
					out = append(out, l)
				}
			}
			sort.Strings(out)
			return out
		}
		// the NAT table without any pod: the daemon's basic rules plus the shared chains the first set-up creates
		h.reset()
		h.request("ADD", "y1", "hp-y", "eth0")
		h.request("DEL", "y1", "hp-y", "eth0")
		// (the shared mark chain is created by the first set-up and stays: not a pod's chain)
		shared := func(nat string) string {
			var out []string
			for _, l := range strings.Split(nat, "\n") {
				if !strings.Contains(l, "KUBE-MARK-MASQ") {
					out = append(out, l)
				}
			}
			return strings.Join(out, "\n")
		}
		basic := shared(h.kern.Save("nat"))
		if strings.Contains(basic, "hp-y hostport") {
			panic("set-up and clean-up of one pod leaves rules behind: " + basic)
		}
		states, transitions, n := 0, 0, 0
		stop := false
		var rec func(hist []hpReq, added map[string]bool, tornDown map[string]bool)
		run := func(hist []hpReq) {
			// replay on a reset daemon, the oracle after every request
			h.reset()
			live := map[string]string{}
			var names []string
			for _, q := range hist {
				pod := podOf[q.c]
				names = append(names, q.String())
				desc := strings.Join(names, ", ")
				code, body := h.request(map[bool]string{true: "ADD", false: "DEL"}[q.add], q.c, pod, "eth0")
				transitions++
				if q.add {
					holder := ""
					for p, c := range live {
						if c != "" && p != pod && portOf[p] == portOf[pod] {
							holder = p
						}
					}
					switch {
					case holder == "" && code != 200:
						r.violate("C14", name, "daemon", "add-fails-although-port-free", "ADD", fmt.Sprintf("%s: %d %s", desc, code, firstLines(body, 1)), []string{desc})
					case holder != "" && code == 200:
						r.violate("C14", name, "daemon", "host-port-handed-out-twice", "ADD", fmt.Sprintf("%s: port %d is held by %s", desc, portOf[pod], holder), []string{desc})
					}
					if code == 200 {
						live[pod] = q.c
					}
				} else {
					if code != 200 {
						r.violate("C14", name, "daemon", "del-fails", "DEL", fmt.Sprintf("%s: %d %s", desc, code, firstLines(body, 1)), []string{desc})
					}
					if live[pod] == q.c {
						live[pod] = ""
					}
				}
				tracked := map[string]bool{}
				for _, o := range h.pmh.VerifOpenPorts() {
					tracked[o] = true
				}
				for _, pod := range []string{"hp-x", "hp-y", "hp-z"} {
					port := portOf[pod]
					key := fmt.Sprintf("%s_ns tcp:%d", pod, port)
					held := false // is the port supposed to be held by some live pod
					for p, c := range live {
						if c != "" && portOf[p] == port {
							held = true
						}
					}
					isBound := tryBind("tcp", port) != nil
					switch {
					case live[pod] != "" && (!isBound || !tracked[key]):
						r.violate("C14", name, "daemon", "host-port-of-running-pod-not-held", q.String(), fmt.Sprintf("%s: pod %s runs in sandbox %s, port %d bound=%v tracked=%v", desc, pod, live[pod], port, isBound, tracked[key]), []string{desc})
					case live[pod] == "" && tracked[key]:
						r.violate("C14", name, "daemon", "host-port-tracked-for-torn-down-pod", q.String(), fmt.Sprintf("%s: %s", desc, key), []string{desc})
					case !held && isBound:
						r.violate("C14", name, "daemon", "host-port-still-bound-after-teardown", q.String(), fmt.Sprintf("%s: port %d", desc, port), []string{desc})
					}
					rules := natOf(pod)
					if live[pod] != "" && len(rules) == 0 {
						r.violate("C14", name, "daemon", "nat-rules-of-running-pod-missing", q.String(), fmt.Sprintf("%s: pod %s (sandbox %s)", desc, pod, live[pod]), []string{desc})
					}
					if live[pod] == "" && len(rules) > 0 {
						r.violate("C14", name, "daemon", "nat-rules-left-after-teardown", q.String(), fmt.Sprintf("%s: pod %s: %v", desc, pod, rules), []string{desc})
					}
				}
			}
			// finally everything is torn down: nothing may be left
			for _, c := range []string{"x1", "x2", "y1", "z1"} {
				h.request("DEL", c, podOf[c], "eth0")
			}
			desc := strings.Join(names, ", ") + ", then DEL of every container"
			if nat := shared(h.kern.Save("nat")); nat != basic {
				r.violate("C14", name, "daemon", "nat-table-differs-from-basic-rules-after-teardown", "DEL", fmt.Sprintf("%s: %s", desc, nat), []string{desc})
			}
			if o := h.pmh.VerifOpenPorts(); len(o) > 0 {
				r.violate("C14", name, "daemon", "ports-leaked-after-teardown", "DEL", fmt.Sprintf("%s: %v", desc, o), []string{desc})
			}
			for _, c := range []string{"x1", "x2", "y1", "z1"} {
				for _, f := range []string{filepath.Join("/var/lib/cni/galaxy", h.cidPfx+c), filepath.Join("/var/lib/cni/galaxy/port", h.cidPfx+c)} {
					if _, err := os.Stat(f); err == nil {
						r.violate("C14", name, "daemon", "state-file-left-after-teardown", "DEL", fmt.Sprintf("%s: %s", desc, strings.Replace(f, h.cidPfx, "", 1)), []string{desc})
					}
				}
			}
			r.evals++
			states++
			r.distinct[hashOf(fmt.Sprint(hist))] = true
			if len(r.samples) < 3 && r.evals%53 == 1 {
				r.samples = append(r.samples, desc)
			}
		}
		rec = func(hist []hpReq, added, tornDown map[string]bool) {
			if stop {
				return
			}
			if len(hist) == depth {
				n++
				if n%nshards != shard {
					return
				}
				if time.Now().After(deadline) {
					r.exhausted = false
					stop = true
					return
				}
				run(hist)
				return
			}
			for _, o := range ops {
				if o.add {
					if added[o.c] {
						continue // container ids are unique
					}
					if o.c == "x2" && added["x1"] && !tornDown["x1"] {
						continue // the kubelet stops the old sandbox of a pod before it creates the next one
					}
					if o.c == "x1" && added["x2"] {
						continue // x1 is the earlier sandbox
					}
				}
				a2, t2 := map[string]bool{}, map[string]bool{}
				for k := range added {
					a2[k] = true
				}
				for k := range tornDown {
					t2[k] = true
				}
				if o.add {
					a2[o.c] = true
				} else if added[o.c] {
					t2[o.c] = true
				}
				rec(append(append([]hpReq{}, hist...), o), a2, t2)
			}
		}
		rec(nil, map[string]bool{}, map[string]bool{})
		sr := r.toScen(name, t0, map[string]int{"depth": depth, "containers": 4})
		sr.States, sr.Transitions = states, transitions
		return sr
	}}
}

// c14DaemonFaultJob: a tear-down during which one netfilter command fails (every command index k), then the kubelet's retry
// of the DEL: afterwards nothing of the pod is left, the other pod is untouched.
func c14DaemonFaultJob(base int32) Job {
	name := "daemon-hostport-del-with-failing-command"
	return Job{Name: name, Weight: 2, Run: func(deadline time.Time) *ScenResult {
		t0 := time.Now()
		r := newCaseResult()
		h, err := newCNIHarness(daemonConf{Defaults: []string{"a"}})
		if err != nil {
			panic(err)
		}
		defer h.close()
		h.putPod(cniPod{Name: "hp-x", Networks: "a", HostPort: base + 17})
		h.putPod(cniPod{Name: "hp-y", Networks: "a", HostPort: base + 18})
		natOf := func(pod string) []string {
			var out []string
			for _, l := range strings.Split(h.kern.Save("nat"), "\n") {
				if strings.Contains(l, pod+" hostport") {
					out = append(out, l)
				}
			}
			sort.Strings(out)
			return out
		}
		setup := func() {
			h.reset()
			h.request("ADD", "x1", "hp-x", "eth0")
			h.request("ADD", "y1", "hp-y", "eth0")
		}
		setup()
		h.kern.ResetFault(0)
		h.request("DEL", "x1", "hp-x", "eth0")
		ncmd := h.kern.Count()
		for k := 1; k <= ncmd; k++ {
			if time.Now().After(deadline) {
				r.exhausted = false
				break
			}
			setup()
			natY := natOf("hp-y")
			h.kern.ResetFault(k)
			c1, _ := h.request("DEL", "x1", "hp-x", "eth0")
			h.kern.ResetFault(0)
			c2, b2 := h.request("DEL", "x1", "hp-x", "eth0")
			r.evals++
			desc := fmt.Sprintf("ADD(x1), ADD(y1), DEL(x1) with netfilter command %d of %d failing (HTTP %d), DEL(x1) again (HTTP %d)", k, ncmd, c1, c2)
			r.distinct[hashOf(k, c1, c2, natOf("hp-x"))] = true
			if len(r.samples) < 3 {
				r.samples = append(r.samples, desc)
			}
			if c2 != 200 {
				r.violate("C14", name, "daemon", "retried-del-fails", "DEL", desc+": "+firstLines(b2, 1), []string{desc})
				continue
			}
			if left := natOf("hp-x"); len(left) > 0 {
				r.violate("C14", name, "daemon", "nat-rules-left-after-retried-teardown", "DEL", fmt.Sprintf("%s: %v", desc, left), []string{desc})
			}
			if fmt.Sprint(natOf("hp-y")) != fmt.Sprint(natY) {
				r.violate("C14", name, "daemon", "other-pods-rules-changed", "DEL", desc, []string{desc})
			}
			if tryBind("tcp", base+17) != nil {
				r.violate("C14", name, "daemon", "host-port-still-bound-after-teardown", "DEL", desc, []string{desc})
			}
			if _, err := os.Stat(filepath.Join("/var/lib/cni/galaxy/port", h.cidPfx+"x1")); err == nil {
				r.violate("C14", name, "daemon", "state-file-left-after-teardown", "DEL", desc, []string{desc})
			}
		}
		// a set-up during which the k-th netfilter command fails (once, or from then on: the roll-back's commands fail as well): the
		// request fails and "a failed setup leaves no port open"; a later DEL (fault gone) leaves nothing of the pod behind
		setupY := func() {
			h.reset()
			h.request("ADD", "y1", "hp-y", "eth0")
		}
		setupY()
		h.kern.ResetFault(0)
		h.request("ADD", "x1", "hp-x", "eth0")
		nadd := h.kern.Count()
		for k := 1; k <= nadd; k++ {
			for _, persistent := range []bool{false, true} {
				if time.Now().After(deadline) {
					r.exhausted = false
					break
				}
				setupY()
				natY := natOf("hp-y")
				h.kern.ResetFault(0)
				if persistent {
					h.kern.FailFrom = k
				} else {
					h.kern.FailAt = k
				}
				c1, _ := h.request("ADD", "x1", "hp-x", "eth0")
				h.kern.ResetFault(0)
				r.evals++
				how := "fails"
				if persistent {
					how = "and every later one fail"
				}
				desc := fmt.Sprintf("ADD(y1), ADD(x1) during which netfilter command %d of %d %s (HTTP %d)", k, nadd, how, c1)
				r.distinct[hashOf("add", k, persistent, c1, natOf("hp-x"))] = true
				if c1 != 200 {
					if err := tryBind("tcp", base+17); err != nil {
						r.violate("C14", name, "daemon", "host-port-open-after-failed-setup", "ADD", fmt.Sprintf("%s: %v", desc, err), []string{desc})
					}
				}
				c2, b2 := h.request("DEL", "x1", "hp-x", "eth0")
				if c2 != 200 {
					r.violate("C14", name, "daemon", "del-after-failed-setup-fails", "DEL", desc+": "+firstLines(b2, 1), []string{desc})
					continue
				}
				if left := natOf("hp-x"); len(left) > 0 {
					r.violate("C14", name, "daemon", "nat-rules-left-after-failed-setup-and-teardown", "DEL", fmt.Sprintf("%s: %v", desc, left), []string{desc})
				}
				if fmt.Sprint(natOf("hp-y")) != fmt.Sprint(natY) {
					r.violate("C14", name, "daemon", "other-pods-rules-changed", "ADD", desc, []string{desc})
				}
				if tryBind("tcp", base+17) != nil {
					r.violate("C14", name, "daemon", "host-port-still-bound-after-teardown", "DEL", desc, []string{desc})
				}
			}
		}
		return r.toScen(name, t0, map[string]int{"commands": ncmd, "setup_commands": nadd})
	}}
}
