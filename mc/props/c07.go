package props

import (
	"fmt"
	"strings"
	"time"

	"verif.local/mc/coop"
	"verif.local/mc/world"
)

// C07: a sized pool never grows beyond its size.

func poolPod(app string, i int) world.PodSpec {
	return world.PodSpec{Name: fmt.Sprintf("%s-r1-%c", app, 'x'+rune(i)), NS: "ns", OwnerKind: "ReplicaSet", OwnerName: app + "-r1", Pool: "pl"}
}

// opStart records the pool size in force when an operation of the running thread starts (-1 = no Pool object = unbounded).
func opStart(w *world.World) {
	t := coop.Running()
	if t == nil {
		return
	}
	if w.OpBound == nil {
		w.OpBound = map[string]int{}
	}
	w.OpBound[t.Name] = w.PoolSize("pl")
}

// poolCount: the IPs held under the pool's prefix, in the tables or in the store, whichever shows more (an object the tables
// have lost sight of still is an IP of the pool).
func poolCount(w *world.World) int {
	n, m := 0, 0
	for _, s := range w.MemDump() {
		if s.Alloc && strings.HasPrefix(s.Key, "pool__pl_") {
			n++
		}
	}
	for _, s := range w.StoreDump() {
		if strings.HasPrefix(s.Key, "pool__pl_") {
			m++
		}
	}
	if m > n {
		return m
	}
	return n
}

// oracleC07: whenever the number of IPs under the pool prefix grew, it must not exceed the largest size that was in force
// at any moment since the operation that performed the increase started (no Pool object at some moment = unbounded).
func oracleC07(w *world.World, s *coop.Sched, final bool) *Finding {
	cur := w.PoolSize("pl")
	if w.OpBound == nil {
		w.OpBound = map[string]int{}
	}
	if s != nil {
		for _, t := range s.Threads {
			b, ok := w.OpBound[t.Name]
			if !ok {
				continue
			}
			if b >= 0 && (cur < 0 || cur > b) {
				w.OpBound[t.Name] = cur
			}
		}
	}
	cnt := poolCount(w)
	defer func() { w.LastPoolCount = cnt }()
	if cnt <= w.LastPoolCount || s == nil || s.LastRan == nil {
		return nil
	}
	b, ok := w.OpBound[s.LastRan.Name]
	if !ok || b < 0 {
		// an increase by an operation that started while no Pool object existed is not subject to a size; it is remembered, because
		// it can push a later, bounded increase over the size
		w.OpBound["#unbounded-adds"] += cnt - w.LastPoolCount
		return nil
	}
	if cnt > b && cnt-w.OpBound["#unbounded-adds"] <= b {
		return &Finding{Clause: "pool-over-size-after-allocation-that-started-before-the-pool-object-existed", Detail: fmt.Sprintf("pool pl holds %d IPs after a step of %s (largest size in force during that operation: %d); %d of them were allocated by operations whose Filter ran before the Pool object was created and whose Bind allocates under the pool prefix without size check or pool lock; tables %v",
			cnt, s.LastRan.Name, b, w.OpBound["#unbounded-adds"], allocOnly(w.MemDump()))}
	}
	if cnt > b {
		return &Finding{Clause: "pool-grew-beyond-size", Detail: fmt.Sprintf("pool pl holds %d IPs after a step of %s, the largest size in force during that operation was %d; tables %v",
			cnt, s.LastRan.Name, b, allocOnly(w.MemDump()))}
	}
	return nil
}

func allocOnly(d []world.IPState) []world.IPState {
	var out []world.IPState
	for _, s := range d {
		if s.Alloc {
			out = append(out, s)
		}
	}
	return out
}

func schedOps(w *world.World, key string, n int) func() {
	return func() {
		for i := 0; i < n; i++ {
			if w.Pods[key] == nil {
				return
			}
			opStart(w)
			if _, err := w.Schedule(key); err == nil {
				return
			}
		}
	}
}

func c07Scenarios(tier string) []*Scenario {
	b := map[string]int{"preempt": 2}
	if tier == "thorough" {
		b = map[string]int{"preempt": 3, "fault": 1}
	}
	cfg := cfgOnePool(3, false)
	mk := func(name string, build func(w *world.World) []Thread) *Scenario {
		return &Scenario{Name: "pool/" + name, Class: "dppool", Cfg: cfg, Bounds: b, Weight: 3, Build: build, Final: quiesce}
	}
	b4 := map[string]int{"preempt": b["preempt"] - 1, "fault": b["fault"]}
	mk4 := func(name string, build func(w *world.World) []Thread) *Scenario {
		return &Scenario{Name: "pool/" + name, Class: "dppool", Cfg: cfg, Bounds: b4, Weight: 3, Build: build, Final: quiesce}
	}
	setup := func(w *world.World) {
		w.SetDeployment("ns", "d", 2)
		w.SetDeployment("ns", "e", 2)
	}
	var out []*Scenario
	for _, size := range []int{0, 1, 2} {
		size := size
		out = append(out, mk(fmt.Sprintf("size%d/two-apps-filter-concurrently", size), func(w *world.World) []Thread {
			setup(w)
			w.SetPoolObj("pl", size)
			x, y, z := poolPod("d", 0), poolPod("e", 0), poolPod("d", 1)
			w.CreatePod(x)
			w.CreatePod(y)
			w.CreatePod(z)
			return []Thread{{"sched-x", schedOps(w, x.Key(), 1)}, {"sched-y", schedOps(w, y.Key(), 1)}, {"sched-z", schedOps(w, z.Key(), 1)}}
		}))
		out = append(out, mk(fmt.Sprintf("size%d/pods-with-release-policy-annotations", size), func(w *world.World) []Thread {
			// pool pods that also carry a release-policy annotation (a named pool means "never", whatever that annotation says: a
			// documented value, an unknown one, one in another spelling)
			setup(w)
			w.SetPoolObj("pl", size)
			x, y, z := poolPod("d", 0), poolPod("e", 0), poolPod("e", 1)
			x.Policy, y.Policy, z.Policy = "immutable", "delete", "Never"
			w.CreatePod(x)
			w.CreatePod(y)
			w.CreatePod(z)
			return []Thread{{"sched-x", schedOps(w, x.Key(), 1)}, {"sched-y", schedOps(w, y.Key(), 1)}, {"sched-z", schedOps(w, z.Key(), 1)}}
		}))
		out = append(out, mk(fmt.Sprintf("size%d/pool-created-with-preallocation-during-run", size), func(w *world.World) []Thread {
			setup(w)
			x, y := poolPod("d", 0), poolPod("e", 0)
			w.CreatePod(x)
			w.CreatePod(y)
			return []Thread{
				{"poolpost", func() { opStart(w); w.OpBound["poolpost"] = size; w.PoolPost("pl", size, true) }},
				{"sched-x", schedOps(w, x.Key(), 2)}, {"sched-y", schedOps(w, y.Key(), 2)}}
		}))
		if size == 0 {
			continue // the remaining scenario starts from a pod bound in the pool
		}
		out = append(out, mk4(fmt.Sprintf("size%d/unbind-and-preempt", size), func(w *world.World) []Thread {
			setup(w)
			w.SetPoolObj("pl", size)
			o, x, y := poolPod("d", 1), poolPod("d", 0), poolPod("e", 0)
			w.CreatePod(o)
			mustSchedule(w, o.Key())
			w.DeletePod(o.Key())
			old := takePending(w)
			w.CreatePod(x)
			w.CreatePod(y)
			return []Thread{
				{"deliver-old", deliverAll(w, old)},
				{"sched-x", schedOps(w, x.Key(), 1)},
				{"preempt-y", func() { opStart(w); w.Preempt(y.Key()) }},
				{"sched-y", schedOps(w, y.Key(), 1)}}
		}))
	}
	rl := mk("size1/reload-vs-two-apps", func(w *world.World) []Thread {
		// the configuration is loaded again (one more address) while pods of two deployments sharing the full-to-be pool are filtered
		setup(w)
		w.SetPoolObj("pl", 1)
		x, y := poolPod("d", 0), poolPod("e", 0)
		w.CreatePod(x)
		w.CreatePod(y)
		return []Thread{
			{"reload", func() { opStart(w); w.ConfigMap = cfgOnePool(4, false).Pools; _ = w.Reload() }},
			{"sched-x", schedOps(w, x.Key(), 1)}, {"sched-y", schedOps(w, y.Key(), 1)}}
	})
	// (one preemption less, one deviation of the table iteration order instead: which free address the second pod is offered)
	rl.Bounds = map[string]int{"preempt": b["preempt"] - 1, "rot": 1, "fault": b["fault"]}
	out = append(out, rl)
	out = append(out, mk("grow1to2/pool-update-with-preallocation", func(w *world.World) []Thread {
		setup(w)
		w.SetPoolObj("pl", 1)
		x, y := poolPod("d", 0), poolPod("e", 0)
		w.CreatePod(x)
		w.CreatePod(y)
		return []Thread{
			{"poolpost", func() { opStart(w); w.OpBound["poolpost"] = 2; w.PoolPost("pl", 2, true) }},
			{"sched-x", schedOps(w, x.Key(), 2)}, {"sched-y", schedOps(w, y.Key(), 2)}}
	}))
	out = append(out, mk("shrink2to0/pool-update-then-other-app", func(w *world.World) []Thread {
		// the pool is full, is shrunk to 0 while a pod of a second deployment sharing it is scheduled
		setup(w)
		w.SetPoolObj("pl", 1)
		o, x, y := poolPod("d", 0), poolPod("e", 0), poolPod("e", 1)
		w.CreatePod(o)
		mustSchedule(w, o.Key())
		w.CreatePod(x)
		w.CreatePod(y)
		return []Thread{
			{"poolpost", func() { opStart(w); w.PoolPost("pl", 0, false) }},
			{"sched-x", schedOps(w, x.Key(), 2)}, {"sched-y", schedOps(w, y.Key(), 2)}}
	}))
	out = append(out, mk("shrink2to1/pool-update", func(w *world.World) []Thread {
		setup(w)
		w.SetPoolObj("pl", 2)
		x, y := poolPod("d", 0), poolPod("e", 0)
		w.CreatePod(x)
		w.CreatePod(y)
		return []Thread{
			{"poolpost", func() { opStart(w); w.PoolPost("pl", 1, false) }},
			{"sched-x", schedOps(w, x.Key(), 2)}, {"sched-y", schedOps(w, y.Key(), 2)}}
	}))
	return out
}

func init() {
	register(&Property{ID: "C07", Level: "exploration", QuickS: 100, ThoroughS: 1200, Rule: ruleExplore, Assume: assumeIPAM,
		Jobs: func(tier string) []Job {
			var jobs []Job
			for _, sc := range c07Scenarios(tier) {
				jobs = append(jobs, ExploreJob("C07", sc, oracleC07))
			}
			return append(jobs, c07FaultJob())
		}})
	replayers["C07"] = func(tier string, v coop.Violation) int { return replayExplore("C07", c07Scenarios(tier), oracleC07, v) }
}

// c07FaultJob: a sized pool that is full of pre-allocated (reserved) IPs; every API call of a pod's Filter fails once (every
// index k), the scheduler retries, a pod of a second deployment follows: the pool never holds more IPs than its size.
func c07FaultJob() Job {
	name := "pool/sized-pool-filter-with-failing-call"
	return Job{Name: name, Weight: 2, Run: func(deadline time.Time) *ScenResult {
		t0 := time.Now()
		r := newCaseResult()
		for _, size := range []int{1, 2} {
			build := func() (*world.World, world.PodSpec, world.PodSpec) {
				w := world.New(cfgOnePool(3, false))
				if err := w.Start(); err != nil {
					panic(err)
				}
				w.SetDeployment("ns", "d", 2)
				w.SetDeployment("ns", "e", 2)
				w.PoolPost("pl", size, true)
				x, y := poolPod("d", 0), poolPod("e", 0)
				w.CreatePod(x)
				w.CreatePod(y)
				return w, x, y
			}
			w, x, _ := build()
			if poolCount(w) != size {
				panic(fmt.Sprintf("pre-allocation gave %d IPs for size %d", poolCount(w), size))
			}
			w.ResetFault(0)
			_, _ = w.Filter(x.Key())
			n := w.FaultCount()
			for k := 0; k <= n; k++ {
				if time.Now().After(deadline) {
					r.exhausted = false
					break
				}
				w, x, y := build()
				steps := []struct {
					name string
					f    func()
				}{
					{fmt.Sprintf("Filter(x) with API call %d failing", k), func() { w.ResetFault(k); _, _ = w.Filter(x.Key()); w.ResetFault(0) }},
					{"Filter(x) again", func() { _, _ = w.Filter(x.Key()) }},
					{"schedule x", func() { _, _ = w.Schedule(x.Key()) }},
					{"schedule y", func() { _, _ = w.Schedule(y.Key()) }},
				}
				var done []string
				for _, s := range steps {
					s.f()
					done = append(done, s.name)
					r.evals++
					desc := fmt.Sprintf("pool of size %d filled by pre-allocation; %s", size, strings.Join(done, "; "))
					r.distinct[hashOf(size, k, len(done), poolCount(w))] = true
					if c := poolCount(w); c > size {
						r.violate("C07", name, "dppool", "pool-grew-beyond-size", "filter-with-failing-call", fmt.Sprintf("%s: the pool holds %d IPs: %v", desc, c, allocOnly(w.MemDump())), []string{desc})
						break
					}
				}
			}
		}
		return r.toScen(name, t0, map[string]int{"faults": 1})
	}}
}
