package props

import (
	"encoding/json"
	"fmt"
	"sort"
	"strings"
	"time"

	corev1 "k8s.io/api/core/v1"
	"tkestack.io/galaxy/pkg/ipam/api"

	"verif.local/mc/world"
)

// Explicit-state BFS over operation histories of the closed IPAM system. A state is reached by
// replaying its (shortest) history on a fresh world; one transition = one real call.

// Op is one transition label.
type Op struct {
	Kind string
	A, B int
}

func (o Op) String() string {
	switch o.Kind {
	case "resync", "restart", "apirelease", "deleteapp", "syncpodips", "storeloss", "reload":
		return o.Kind
	case "sched":
		return fmt.Sprintf("sched(p%d,node#%d)", o.A, o.B)
	case "schedcf":
		return fmt.Sprintf("sched-provider-fails(p%d,node#%d)", o.A, o.B)
	case "schedlost":
		return fmt.Sprintf("sched-bind-response-lost(p%d,node#%d)", o.A, o.B)
	case "schedff", "schedff2":
		k := 1
		if o.Kind == "schedff2" {
			k = 2
		}
		return fmt.Sprintf("sched-with-api-call-%d-of-filter-failing-then-retried(p%d)", k, o.A)
	case "stalesync":
		return fmt.Sprintf("pod-ip-sync-of-deleted-incarnation(%d)", o.A)
	case "delivercf":
		if o.B > 0 {
			return fmt.Sprintf("deliver-provider-call-%d-fails(%d)", o.B+1, o.A)
		}
		return fmt.Sprintf("deliver-provider-fails-once(%d)", o.A)
	case "resynccf":
		return fmt.Sprintf("resync-provider-call-%d-fails", o.A)
	}
	return fmt.Sprintf("%s(%d)", o.Kind, o.A)
}

// sameObject: do two pending notifications concern the same API object?
func sameObject(a, b world.Event) bool {
	if a.Pod != nil && b.Pod != nil {
		return a.Pod.Namespace == b.Pod.Namespace && a.Pod.Name == b.Pod.Name
	}
	if a.FIP != nil && b.FIP != nil {
		return a.FIP.Name == b.FIP.Name
	}
	return false
}

// isSched: a scheduling attempt (Filter then Bind on an offered node), with or without a provider failure.
func isSched(kind string) bool {
	return kind == "sched" || kind == "schedcf" || kind == "schedlost" || kind == "schedff" || kind == "schedff2"
}

// Obs is what an operation returned (used by oracles).
type Obs struct {
	Op      Op
	Err     string
	Offered []string
	Node    string
	IPs     []string
	// Before is the memory dump right before the op.
	Before []world.IPState
	APIn   int
	Posted []api.FloatingIP
	Unrel  []string
	// EventPod is the pod key whose event a deliver op handed over.
	EventPod string
	EventUID string
}

// HistSys is the alphabet + initial state for one workload class.
type HistSys struct {
	Class    wkClass
	Cfg      world.Config
	NPods    int
	Replicas int
	// which op kinds are in the alphabet
	Ops      map[string]bool
	PoolSize int
	// Surge: deployment classes only: so many pods beyond replicas may exist at once (rolling update with maxSurge)
	Surge int
	// Prefix is applied after Init: BFS from a non-initial state.
	Prefix     []Op
	PrefixName string
	// ModelCanon, when set, contributes the reference model's own state (history variables) to the canonical form, so
	// that states the implementation cannot tell apart but the model can are not merged.
	ModelCanon func(h *HistSys, w *world.World) string
	// Step, when set, runs after every operation of a replay (prefix included): oracles with incremental scratch state.
	Step func(w *world.World)
	// StopAtViolation: successors of a violating state are not explored (state invariants persist and would be reported again
	// for every later operation).
	StopAtViolation bool
}

func (h *HistSys) pod(i int) world.PodSpec { return h.Class.pod(i) }

// Init puts the world into the initial state.
func (h *HistSys) Init(w *world.World) {
	h.Class.setWorkload(w, h.Replicas)
	if h.PoolSize > 0 {
		w.SetPoolObj("pl", h.PoolSize)
	}
}

func (h *HistSys) curReplicas(w *world.World) int {
	switch h.Class.Kind {
	case "sts", "stsmulti", "ststwin", "stspool", "stspfx":
		return w.Replicas("StatefulSet", "ns", "a")
	case "dp", "dppool", "dppoolu":
		return w.Replicas("Deployment", "ns", "d")
	}
	return 99
}

// Enabled lists the operations enabled in w, simplest first.
func (h *HistSys) Enabled(w *world.World) []Op {
	var ops []Op
	rep := h.curReplicas(w)
	live := 0
	for i := 0; i < h.NPods; i++ {
		if w.Alive(h.pod(i).Key()) {
			live++
		}
	}
	for i := 0; i < h.NPods; i++ {
		p := w.Pods[h.pod(i).Key()]
		if p == nil {
			// (the pods of a deployment have no index: any pod name may be created while fewer pods than replicas, plus the surge of
			// a rolling update where the system has one, are alive)
			dpRoom := (h.Class.Kind == "dp" || h.Class.Kind == "dppool" || h.Class.Kind == "dppoolu") && live < rep+h.Surge
			if h.Ops["create"] && rep >= 0 && (i < rep || dpRoom || h.Class.Kind == "bare" || h.Class.Kind == "barepfx") {
				ops = append(ops, Op{Kind: "create", A: i})
			}
			continue
		}
		alive := w.Alive(h.pod(i).Key())
		if p.Spec.NodeName == "" && alive && h.Ops["sched"] {
			ops = append(ops, Op{Kind: "sched", A: i, B: 0})
			if len(w.Cfg.Nodes) > 2 {
				ops = append(ops, Op{Kind: "sched", A: i, B: 1})
			}
			if h.Ops["filterfault"] {
				// one API call of the Filter fails (the first / the second); kube-scheduler tries the pod again
				ops = append(ops, Op{Kind: "schedff", A: i}, Op{Kind: "schedff2", A: i})
			}
			if h.Ops["lostresp"] {
				// the binding is applied by the API server but its response is lost; kube-scheduler tries again later
				ops = append(ops, Op{Kind: "schedlost", A: i, B: 0})
			}
			if h.Ops["cloudfail"] && w.Cloud != nil {
				// one scheduling attempt during which the next provider call fails cleanly (kube-scheduler retries later)
				ops = append(ops, Op{Kind: "schedcf", A: i, B: 0})
			}
		}
		if h.Ops["delete"] {
			ops = append(ops, Op{Kind: "delete", A: i})
		}
		if h.Ops["finish"] && alive && p.Spec.NodeName != "" {
			ops = append(ops, Op{Kind: "finish", A: i})
		}
		if h.Ops["run"] && alive && p.Spec.NodeName != "" && p.Status.Phase != corev1.PodRunning {
			ops = append(ops, Op{Kind: "run", A: i})
		}
	}
	for j := 0; j < len(w.Pending) && j < 2; j++ {
		// notifications about one object arrive in order (shared informer); those about different objects may overtake
		overtakes := false
		for i := 0; i < j; i++ {
			if sameObject(w.Pending[i], w.Pending[j]) {
				overtakes = true
			}
		}
		if h.Ops["deliver"] && !overtakes {
			ops = append(ops, Op{Kind: "deliver", A: j})
		}
	}
	if h.Ops["stalesync"] {
		for i := 0; i < h.NPods; i++ {
			if d := w.Deleted[h.pod(i).Key()]; d != nil && d.Spec.NodeName != "" {
				ops = append(ops, Op{Kind: "stalesync", A: i})
			}
		}
	}
	if len(w.Pending) > 0 && h.Ops["deliver"] && h.Ops["cloudfail"] && w.Cloud != nil {
		// the event is handled while the next provider call fails once (the release loop retries the unbind)
		ops = append(ops, Op{Kind: "delivercf", A: 0})
		if h.Ops["cloudfail2"] {
			ops = append(ops, Op{Kind: "delivercf", A: 0, B: 1}) // the second provider call of the handler fails (pods with several IPs)
		}
	}
	if len(w.Pending) > 0 && h.Ops["drop"] {
		ops = append(ops, Op{Kind: "drop", A: 0})
	}
	if h.Ops["resync"] {
		ops = append(ops, Op{Kind: "resync"})
		if h.Ops["cloudfail2"] && w.Cloud != nil {
			// a resync pass during which the first / the second provider call fails cleanly
			ops = append(ops, Op{Kind: "resynccf", A: 1}, Op{Kind: "resynccf", A: 2})
		}
	}
	if h.Ops["scale"] && h.Class.Kind != "bare" && h.Class.Kind != "barepfx" {
		for n := 0; n <= h.NPods; n++ {
			if n != rep {
				ops = append(ops, Op{Kind: "scale", A: n})
			}
		}
		if rep >= 0 {
			ops = append(ops, Op{Kind: "deleteapp"})
		}
	}
	if h.Ops["apirelease"] {
		ops = append(ops, Op{Kind: "apirelease"})
	}
	if h.Ops["restart"] {
		ops = append(ops, Op{Kind: "restart"})
	}
	if h.Ops["reload"] {
		ops = append(ops, Op{Kind: "reload"})
	}
	if h.Ops["syncpodips"] {
		ops = append(ops, Op{Kind: "syncpodips"})
	}
	if h.Ops["storeloss"] && len(w.FIPs) > 0 {
		ops = append(ops, Op{Kind: "storeloss"})
	}
	return ops
}

// Apply executes op on w.
func (h *HistSys) Apply(w *world.World, op Op) Obs {
	o := Obs{Op: op}
	n0 := w.APICalls
	switch op.Kind {
	case "create":
		w.CreatePod(h.pod(op.A))
	case "sched", "schedcf", "schedlost", "schedff", "schedff2":
		if op.Kind == "schedlost" {
			w.LoseBindResponse = true
			defer func() { w.LoseBindResponse = false }()
		}
		if op.Kind == "schedcf" {
			w.Cloud.FailNext()
			defer func() { w.Cloud.FailAt = 0 }()
		}
		key := h.pod(op.A).Key()
		o.Before = w.MemDump()
		pod := w.Pods[key]
		if op.Kind == "schedff" {
			w.ResetFault(1)
		} else if op.Kind == "schedff2" {
			w.ResetFault(2)
		}
		nodes, err := w.Filter(key)
		if op.Kind == "schedff" || op.Kind == "schedff2" {
			w.ResetFault(0)
			if err != nil {
				nodes, err = w.Filter(key) // the scheduler's next attempt
			}
		}
		o.Offered = nodes
		if err != nil {
			o.Err = "filter: " + err.Error()
			break
		}
		if len(nodes) == 0 {
			o.Err = "unschedulable"
			break
		}
		n := nodes[0]
		if op.B == 1 {
			n = nodes[len(nodes)-1]
		}
		o.Node = n
		nb := len(w.Bindings)
		if err := w.Bind(pod.Namespace, pod.Name, string(pod.UID), n); err != nil {
			o.Err = "bind: " + err.Error()
			break
		}
		if len(w.Bindings) > nb {
			o.IPs = w.Bindings[len(w.Bindings)-1].IPs
		}
		o.EventPod, o.EventUID = key, string(pod.UID)
	case "delete":
		if p := w.Pods[h.pod(op.A).Key()]; p != nil {
			o.EventPod, o.EventUID = h.pod(op.A).Key(), string(p.UID)
		}
		w.DeletePod(h.pod(op.A).Key())
	case "finish":
		if p := w.Pods[h.pod(op.A).Key()]; p != nil {
			o.EventPod, o.EventUID = h.pod(op.A).Key(), string(p.UID)
		}
		w.SetPhase(h.pod(op.A).Key(), corev1.PodSucceeded)
	case "deliver", "delivercf":
		if op.Kind == "delivercf" {
			w.Cloud.FailNth(op.B + 1)
			defer func() { w.Cloud.FailAt = 0 }()
		}
		if op.A < len(w.Pending) && w.Pending[op.A].Pod != nil {
			o.EventPod = w.Pending[op.A].Pod.Namespace + "/" + w.Pending[op.A].Pod.Name
			o.EventUID = string(w.Pending[op.A].Pod.UID)
		}
		for _, e := range w.Deliver(op.A) {
			o.Err += e.Error() + ";"
		}
	case "drop":
		w.Pending = w.Pending[1:]
	case "resync", "resynccf":
		if op.Kind == "resynccf" {
			w.Cloud.FailNth(op.A)
			defer func() { w.Cloud.FailAt = 0 }()
		}
		if err := w.Resync(); err != nil {
			o.Err = err.Error()
		}
	case "scale":
		h.Class.setWorkload(w, op.A)
	case "deleteapp":
		h.Class.setWorkload(w, -1)
	case "apirelease":
		_, list := w.APIList("size=100")
		var post []api.FloatingIP
		for _, e := range list.Content {
			if e.Releasable {
				post = append(post, e)
			}
		}
		o.Posted = post
		if len(post) > 0 {
			_, resp := w.APIRelease(post)
			o.Unrel = resp.Unreleased
		}
	case "restart":
		if err := w.Restart(); err != nil {
			o.Err = err.Error()
		}
	case "reload":
		// the same pools in another spelling: the running instance rebuilds its tables from the stored objects (pending
		// notifications stay pending, unlike across a restart)
		if strings.HasSuffix(w.ConfigMap, " ") {
			w.ConfigMap = strings.TrimSuffix(w.ConfigMap, " ")
		} else {
			w.ConfigMap += " "
		}
		if err := w.Reload(); err != nil {
			o.Err = err.Error()
		}
	case "syncpodips":
		w.SyncPodIPs()
	case "stalesync":
		w.StaleSyncPodIP(h.pod(op.A).Key())
	case "run":
		w.SetPhase(h.pod(op.A).Key(), corev1.PodRunning)
	case "storeloss":
		// the FloatingIP objects are lost (e.g. migration to an empty store) and galaxy-ipam is restarted
		for n := range w.FIPs {
			delete(w.FIPs, n)
		}
		if err := w.Restart(); err != nil {
			o.Err = err.Error()
		}
	}
	o.APIn = w.APICalls - n0
	return o
}

// Canon returns the canonical form of the world state. UIDs are renamed in order of first
// appearance (they are only ever compared for equality); UpdatedAt is reduced to its rank.
func Canon(w *world.World) string {
	names := map[string]string{}
	uid := func(u string) string {
		if u == "" {
			return "-"
		}
		if n, ok := names[u]; ok {
			return n
		}
		n := fmt.Sprintf("U%d", len(names))
		names[u] = n
		return n
	}
	var b strings.Builder
	keys := make([]string, 0, len(w.Pods))
	for k := range w.Pods {
		keys = append(keys, k)
	}
	sort.Strings(keys)
	for _, k := range keys {
		p := w.Pods[k]
		fmt.Fprintf(&b, "pod %s %s %s n=%s a=%s;", k, uid(string(p.UID)), p.Status.Phase, p.Spec.NodeName, annoIPs(p))
	}
	mem := w.MemDump()
	ranks := rankUpdated(mem)
	for i, s := range mem {
		if s.Alloc {
			fmt.Fprintf(&b, "mem %s %s p%d n=%s %s r%v t%d;", s.IP, s.Key, s.Policy, s.Node, uid(s.UID), s.Reserved, ranks[i])
		}
	}
	for _, s := range w.StoreDump() {
		fmt.Fprintf(&b, "st %s %s p%d n=%s %s r%v;", s.IP, s.Key, s.Policy, s.Node, uid(s.UID), s.Reserved)
	}
	for _, e := range w.Pending {
		switch e.Kind {
		case "pod-delete":
			fmt.Fprintf(&b, "ev del %s %s;", e.Pod.Name, uid(string(e.Pod.UID)))
		case "pod-update":
			fmt.Fprintf(&b, "ev upd %s %s %s>%s;", e.Pod.Name, uid(string(e.Pod.UID)), e.Old.Status.Phase, e.Pod.Status.Phase)
		default:
			fmt.Fprintf(&b, "ev %s %s;", e.Kind, e.FIP.Name)
		}
	}
	fmt.Fprintf(&b, "sts=%d dp=%d;", w.Replicas("StatefulSet", "ns", "a"), w.Replicas("Deployment", "ns", "d"))
	pk := make([]string, 0, len(w.PoolObjs))
	for k, p := range w.PoolObjs {
		pk = append(pk, fmt.Sprintf("%s=%d", k, p.Size))
	}
	sort.Strings(pk)
	fmt.Fprintf(&b, "pools=%v;", pk)
	if w.Cloud != nil {
		ak := make([]string, 0)
		for ip, n := range w.Cloud.Assigned {
			ak = append(ak, ip+"@"+n)
		}
		sort.Strings(ak)
		fmt.Fprintf(&b, "cloud=%v;", ak)
	}
	fmt.Fprintf(&b, "cm=%s", hashOf(w.ConfigMap))
	return b.String()
}

func annoIPs(p *corev1.Pod) string {
	var bs []string
	for _, ip := range podAnnoIPs(p) {
		bs = append(bs, ip)
	}
	return strings.Join(bs, ",")
}

func rankUpdated(mem []world.IPState) []int {
	idx := make([]int, 0, len(mem))
	for i, s := range mem {
		if s.Alloc {
			idx = append(idx, i)
		}
	}
	sort.Slice(idx, func(a, b int) bool { return mem[idx[a]].Updated < mem[idx[b]].Updated })
	r := make([]int, len(mem))
	for rank, i := range idx {
		r[i] = rank
	}
	return r
}

// HistOracle is evaluated on every transition: prev state's quiescent summary, the op, its observation,
// the world after the op (w) and a function that yields the quiescent successor (deliver all; resync).
type HistOracle func(h *HistSys, hist []Op, w *world.World, obs Obs) *Finding

// BFSResult is the outcome of one BFS.
type BFSResult struct {
	States, Transitions, MaxDepth int
	Exhaustive                    bool
	Stopped                       string
	Violations                    []histViolation
	Samples                       []string
	Extra                         map[string]int
}

type histViolation struct {
	Hist    []Op
	Finding *Finding
}

// BuildHist replays hist on a fresh world and returns it (with the observation of the last op).
func BuildHist(h *HistSys, hist []Op) (*world.World, Obs, error) {
	w := world.New(h.Cfg)
	if err := w.Start(); err != nil {
		return nil, Obs{}, err
	}
	h.Init(w)
	w.Aux = nil
	if h.Step != nil {
		h.Step(w)
	}
	for _, op := range h.Prefix {
		// the observations of the prefix belong to the log: reference models need what was handed out there
		w.Aux = append(w.Aux, h.Apply(w, op))
		if h.Step != nil {
			h.Step(w)
		}
	}
	var last Obs
	for i, op := range hist {
		last = h.Apply(w, op)
		w.Aux = append(w.Aux, last)
		if h.Step != nil && i < len(hist)-1 {
			h.Step(w) // the last state is the oracle's
		}
	}
	return w, last, nil
}

// obsLog returns the observations of all operations of the history that built w.
func obsLog(w *world.World) []Obs {
	out := make([]Obs, 0, len(w.Aux))
	for _, a := range w.Aux {
		out = append(out, a.(Obs))
	}
	return out
}

// BFS explores all histories up to maxDepth, deduplicating by canonical state.
func BFS(h *HistSys, maxDepth int, deadline time.Time, oracle HistOracle, perTransition func(hist []Op, w *world.World)) *BFSResult {
	res := &BFSResult{Exhaustive: true, Extra: map[string]int{}}
	w0, _, err := BuildHist(h, nil)
	if err != nil {
		res.Violations = append(res.Violations, histViolation{nil, &Finding{Clause: "start-failed", Detail: err.Error()}})
		return res
	}
	canon := func(w *world.World) string {
		if h.ModelCanon != nil {
			return Canon(w) + "##" + h.ModelCanon(h, w)
		}
		return Canon(w)
	}
	seen := map[string]bool{canon(w0): true}
	frontier := [][]Op{{}}
	res.States = 1
	sigSeen := map[string]bool{}
	for depth := 0; depth < maxDepth && len(frontier) > 0; depth++ {
		var next [][]Op
		for _, hist := range frontier {
			if time.Now().After(deadline) {
				res.Exhaustive = false
				res.Stopped = fmt.Sprintf("deadline at depth %d", depth)
				return res
			}
			w, _, _ := BuildHist(h, hist)
			for _, op := range h.Enabled(w) {
				nh := append(append([]Op{}, hist...), op)
				w2, obs, _ := BuildHist(h, nh)
				res.Transitions++
				if depth+1 > res.MaxDepth {
					res.MaxDepth = depth + 1
				}
				c := canon(w2) // before the oracle: oracles may drive w2 on (quiescence)
				if oracle != nil {
					if f := oracle(h, nh, w2, obs); f != nil {
						sig := f.Clause + "|" + f.Culprit
						if !sigSeen[sig] {
							sigSeen[sig] = true
							res.Violations = append(res.Violations, histViolation{nh, f})
						}
						if len(res.Violations) >= 8 {
							res.Exhaustive = false
							res.Stopped = "max_violations"
							return res
						}
						// keep expanding: a known finding must not hide other violations behind it
						if h.StopAtViolation {
							seen[c] = true
						}
					}
				}
				if perTransition != nil {
					perTransition(nh, w2)
				}
				if !seen[c] {
					seen[c] = true
					res.States++
					next = append(next, nh)
					if len(res.Samples) < 3 && res.States%37 == 5 {
						res.Samples = append(res.Samples, histString(nh))
					}
				}
			}
		}
		frontier = next
	}
	if len(frontier) > 0 {
		res.Stopped = fmt.Sprintf("depth bound %d (frontier %d states unexpanded)", maxDepth, len(frontier))
	}
	return res
}

func histString(h []Op) string {
	s := make([]string, len(h))
	for i, o := range h {
		s[i] = o.String()
	}
	return strings.Join(s, "; ")
}

func histJob(prop, name string, h *HistSys, depth int, oracle HistOracle, perTransition func(hist []Op, w *world.World)) Job {
	return Job{Name: name, Weight: 3, Run: func(deadline time.Time) *ScenResult {
		t0 := time.Now()
		r := BFS(h, depth, deadline, oracle, perTransition)
		sr := &ScenResult{Scenario: name, Class: h.Class.String(), Executions: r.Transitions, States: r.States, Transitions: r.Transitions,
			MaxDepth: r.MaxDepth, Exhaustive: r.Exhaustive, Stopped: r.Stopped, WallS: time.Since(t0).Seconds(), Extra: r.Extra,
			Bounds: map[string]int{"depth": depth}}
		for _, s := range r.Samples {
			j, _ := json.Marshal(map[string]string{"scenario": name, "history": s})
			sr.SampleObjs = append(sr.SampleObjs, j)
		}
		for _, v := range r.Violations {
			sr.Violations = append(sr.Violations, histToViolation(prop, name, h, v))
		}
		return sr
	}}
}
