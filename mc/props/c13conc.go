package props

import (
	"fmt"

	"verif.local/mc/coop"
	"verif.local/mc/world"
)

// C13 under concurrency: a pod asking for two addresses is bound while the configuration is loaded again with other settings
// (mask, gateway, VLAN) for the same ranges. Whatever the order, what galaxy-ipam afterwards reports for the pod's addresses —
// the values every later Bind writes into the annotation the plugin decodes — are the settings of the configuration in force.
func c13ConcurrentScenarios(tier string) []*Scenario {
	b := map[string]int{"preempt": 2}
	if tier == "thorough" {
		b = map[string]int{"preempt": 3}
	}
	cfgA := "[" + poolJSON([]string{"10.0.1.0/24"}, []string{"10.10.1.1~10.10.1.3"}, "10.10.1.0/24", "10.10.1.254", 2) + "]"
	cfgB := "[" + poolJSON([]string{"10.0.1.0/24"}, []string{"10.10.1.1~10.10.1.3"}, "10.10.0.0/23", "10.10.0.1", 7) + "]"
	return []*Scenario{{Name: "two-ip-bind/vs-load-of-other-settings", Class: "concurrent", Cfg: world.Config{Pools: cfgA, Nodes: nodesN1}, Bounds: b, Weight: 2,
		Build: func(w *world.World) []Thread {
			w.SetStatefulSet("ns", "a", 3)
			x := world.PodSpec{Name: "a-0", NS: "ns", OwnerKind: "StatefulSet", OwnerName: "a", Ranges: `[["10.10.1.1"],["10.10.1.2~10.10.1.3"]]`}
			w.CreatePod(x)
			return []Thread{
				{"sched-x", scheduleRetry(w, x.Key(), 1)},
				{"load", func() { w.ConfigMap = cfgB; _ = w.Reload() }},
			}
		}}}
}

func oracleC13Concurrent(w *world.World, s *coop.Sched, final bool) *Finding {
	if !final {
		return nil
	}
	infos, err := w.Plugin.GetIpam().ByKeyAndIPRanges("sts_ns_a_a-0", nil)
	if err != nil {
		return nil
	}
	pools := poolsOf(w.ConfigMap)
	for _, fi := range infos {
		if fi == nil || fi.IPInfo.IP == nil {
			continue
		}
		for _, p := range pools {
			if !p.Contains(fi.IPInfo.IP.IP) {
				continue
			}
			ones, _ := fi.IPInfo.IP.Mask.Size()
			wantOnes, _ := p.IPNet().Mask.Size()
			got := fmt.Sprintf("/%d gw %s vlan %d", ones, fi.IPInfo.Gateway, fi.IPInfo.Vlan)
			want := fmt.Sprintf("/%d gw %s vlan %d", wantOnes, p.Gateway, p.Vlan)
			if got != want {
				return &Finding{Clause: "reported-ip-settings-differ-from-the-configuration-in-force", Detail: fmt.Sprintf("%s: galaxy-ipam reports %s, the configuration in force says %s", fi.IPInfo.IP.IP, got, want)}
			}
		}
	}
	return nil
}
