package props

import (
	"fmt"
	"sort"
	"strings"

	"tkestack.io/galaxy/pkg/ipam/schedulerplugin/util"

	"verif.local/mc/coop"
	"verif.local/mc/world"
)

var histOpsAll = map[string]bool{"create": true, "sched": true, "delete": true, "finish": true, "deliver": true, "drop": true,
	"resync": true, "scale": true, "apirelease": true}

// histOpsSync adds the pod-IP sync path: pods become Running, the store is lost and galaxy-ipam restarted (migration to an empty
// store, which is what syncPodIPsIntoDB exists for), and the periodic pod-IP sync re-adopts the IPs of running pods.
var histOpsSync = map[string]bool{"create": true, "sched": true, "delete": true, "finish": true, "deliver": true, "drop": true,
	"resync": true, "run": true, "storeloss": true, "syncpodips": true}

var histClasses = []wkClass{
	{"sts", ""}, {"sts", "immutable"}, {"sts", "never"},
	{"dp", ""}, {"dp", "immutable"}, {"dp", "never"},
	{"dppool", ""}, {"dppool", "never"}, {"dppool", "immutable"}, // a named pool means "never", whatever the policy annotation says
	{"bare", ""}, {"bare", "never"},
	{"stspool", ""}, // a statefulset whose pods use a named IP pool
}

func histSystems(cloud bool) []*HistSys {
	var out []*HistSys
	for _, c := range histClasses {
		out = append(out, &HistSys{Class: c, Cfg: cfgTwoPools(cloud), NPods: 2, Replicas: 2, Ops: histOpsAll})
		// the same alphabet from a non-initial state: both pods created and bound
		out = append(out, &HistSys{Class: c, Cfg: cfgTwoPools(cloud), NPods: 2, Replicas: 2, Ops: histOpsAll, PrefixName: "allbound",
			Prefix: []Op{{Kind: "create", A: 0}, {Kind: "sched", A: 0}, {Kind: "create", A: 1}, {Kind: "sched", A: 1}}})
		if c.Kind == "dp" || c.Kind == "dppool" {
			// one replica, two pod names: the replacement of a deleted pod carries another name, and it may be scheduled before or
			// after the old pod's delete event is handled
			opsFF := map[string]bool{"filterfault": true}
			for k, v := range histOpsAll {
				opsFF[k] = v
			}
			out = append(out, &HistSys{Class: c, Cfg: cfgTwoPools(cloud), NPods: 2, Replicas: 1, Ops: opsFF, PrefixName: "onereplica"})
			// the same with a surge of one: the replacement may exist next to the pod it replaces (status.replicas > spec.replicas)
			out = append(out, &HistSys{Class: c, Cfg: cfgTwoPools(cloud), NPods: 2, Replicas: 1, Surge: 1, Ops: histOpsAll, PrefixName: "onereplica-surge"})
		}
		if c.Kind == "dppool" {
			// the pool additionally has a Pool object with a size (filter then allocates during Filter)
			out = append(out, &HistSys{Class: c, Cfg: cfgTwoPools(cloud), NPods: 2, Replicas: 2, Ops: histOpsAll, PoolSize: 2, PrefixName: "sizedpool"})
		}
	}
	return out
}

// c03Systems: the C02 systems plus, per reserving class, the pod-IP sync alphabet from a state with one pod bound.
func c03Systems() []*HistSys {
	out := histSystems(false)
	// same-named statefulsets in two namespaces (nothing keyed by the app name alone may leak from one to the other)
	for _, c := range []wkClass{{"ststwin", "immutable"}, {"ststwin", ""}} {
		out = append(out, &HistSys{Class: c, Cfg: cfgTwoPools(false), NPods: 2, Replicas: 2, Ops: histOpsAll, PrefixName: "allbound",
			Prefix: []Op{{Kind: "create", A: 0}, {Kind: "sched", A: 0}, {Kind: "create", A: 1}, {Kind: "sched", A: 1}}})
	}
	// restarts (the tables are rebuilt from the stored objects: what decides a release must survive that)
	opsRestart := map[string]bool{"restart": true}
	for k, v := range histOpsAll {
		opsRestart[k] = v
	}
	for _, c := range []wkClass{{"sts", "immutable"}, {"sts", "never"}, {"dp", "immutable"}, {"dppool", ""}} {
		out = append(out, &HistSys{Class: c, Cfg: cfgTwoPools(false), NPods: 2, Replicas: 2, Ops: opsRestart, PrefixName: "restarts",
			Prefix: []Op{{Kind: "create", A: 0}, {Kind: "sched", A: 0}, {Kind: "create", A: 1}, {Kind: "sched", A: 1}}})
	}
	// pods whose keys are in a prefix relation (a-1 / a-10)
	for _, c := range []wkClass{{"stspfx", ""}, {"stspfx", "immutable"}} {
		out = append(out, &HistSys{Class: c, Cfg: cfgTwoPools(false), NPods: 2, Replicas: 11, Ops: histOpsAll, PrefixName: "allbound",
			Prefix: []Op{{Kind: "create", A: 0}, {Kind: "sched", A: 0}, {Kind: "create", A: 1}, {Kind: "sched", A: 1}}})
	}
	for _, c := range []wkClass{{"sts", "immutable"}, {"sts", "never"}, {"dppool", ""}, {"dp", "never"}, {"bare", "never"}} {
		out = append(out, &HistSys{Class: c, Cfg: cfgTwoPools(false), NPods: 1, Replicas: 2, Ops: histOpsSync, PrefixName: "syncpath",
			Prefix: []Op{{Kind: "create", A: 0}, {Kind: "sched", A: 0}}})
	}
	return out
}

// cloudHistSystems: reserving classes with a cloud provider configured; the alphabet also has a scheduling attempt and an
// event delivery during which one provider call fails cleanly. Start state: both pods bound, the first one deleted and its
// event handled (its IP is reserved).
func cloudHistSystems() []*HistSys {
	ops := map[string]bool{"cloudfail": true}
	for k, v := range histOpsAll {
		ops[k] = v
	}
	pre := []Op{{Kind: "create", A: 0}, {Kind: "sched", A: 0}, {Kind: "create", A: 1}, {Kind: "sched", A: 1}, {Kind: "delete", A: 0}, {Kind: "deliver", A: 0}}
	var out []*HistSys
	for _, c := range histClasses {
		if c.Policy == "" && c.Kind != "dppool" && c.Kind != "stspool" {
			continue
		}
		out = append(out, &HistSys{Class: c, Cfg: cfgTwoPools(true), NPods: 2, Replicas: 2, Ops: ops, PrefixName: "cloud-onedeleted", Prefix: pre})
	}
	return out
}

func (h *HistSys) jobName() string {
	if h.PrefixName != "" {
		return "hist/" + h.Class.String() + "@" + h.PrefixName
	}
	return "hist/" + h.Class.String()
}

// ---------------------------------------------------------------------------------------------
// C02: stickiness

func keyOfSpec(p world.PodSpec) *util.KeyObj {
	w := world.New(world.Config{})
	pod := w.CreatePod(p)
	k, _ := util.FormatKey(pod)
	return k
}

func oracleC02(h *HistSys, hist []Op, w *world.World, obs Obs) *Finding {
	if !isSched(obs.Op.Kind) {
		return nil
	}
	if f := oracleC02AtFilter(h, hist, w, obs); f != nil {
		return f
	}
	return oracleC02Model(h, hist, w, obs)
}

// oracleC02Model: reference model of what each identity / app must still hold, driven only by the history
// (bindings handed out, scale/delete-app, API releases), not by the IPAM's own tables.
func oracleC02Model(h *HistSys, hist []Op, w *world.World, last Obs) *Finding {
	f, _ := c02Model(h, hist, w)
	return f
}

// c02ModelCanon renders the model's obligations (history variables) for the canonical state.
func c02ModelCanon(h *HistSys, w *world.World) string {
	_, st := c02Model(h, nil, w)
	return st
}

func c02Model(h *HistSys, hist []Op, w *world.World) (*Finding, string) {
	pol := h.Class.Policy
	dp := h.Class.Kind == "dp" || h.Class.Kind == "dppool"
	if pol == "" && h.Class.Kind != "dppool" && h.Class.Kind != "stspool" {
		return nil, ""
	}
	never := pol == "never" || h.Class.Kind == "dppool" || h.Class.Kind == "stspool" // a named pool means never
	held := map[int]string{}                                                         // identity classes: pod index -> ip
	appHeld := map[string]bool{}                                                     // deployment classes: ips the app/pool holds
	holder := map[string]string{}                                                    // ip -> uid of the pod it was last bound to
	dead := map[string]bool{}                                                        // uid -> pod deleted or finished
	known := map[string]bool{}                                                       // uid -> the IPAM has been told (event delivered, or a resync ran after the death)
	log := obsLog(w)
	replicas := h.Replicas
	alive := map[int]bool{} // identity classes: is the pod with this index currently alive
	// endIdentityReservations: an immutable identity's reservation may legitimately end whenever the pod is dead while the app is
	// absent or scaled to or below its index (galaxy re-evaluates at event handling and resync; be permissive about when)
	endIdentityReservations := func() {
		if never || dp {
			return
		}
		for i := range held {
			if !alive[i] && (replicas < 0 || replicas <= i) {
				delete(held, i)
			}
		}
	}
	for n, o := range log {
		isLast := n == len(log)-1
		switch o.Op.Kind {
		case "delete", "finish":
			dead[o.EventUID] = true
			alive[o.Op.A] = false
			endIdentityReservations()
		case "deliver", "delivercf":
			if dead[o.EventUID] {
				known[o.EventUID] = true
			}
		case "resync", "resynccf":
			for u := range dead {
				known[u] = true
			}
		}
		switch o.Op.Kind {
		case "scale", "deleteapp":
			if o.Op.Kind == "deleteapp" {
				replicas = -1
			} else {
				replicas = o.Op.A
			}
			endIdentityReservations()
			if never {
				break
			}
			if dp {
				if o.Op.Kind == "deleteapp" || o.Op.A < len(appHeld) {
					appHeld = map[string]bool{}
				}
			}
		case "apirelease":
			for _, e := range o.Posted {
				delete(appHeld, e.IP)
				for i, ip := range held {
					if ip == e.IP {
						delete(held, i)
					}
				}
			}
		case "sched", "schedcf", "schedlost", "schedff", "schedff2":
			if o.Err != "" || len(o.IPs) == 0 {
				break
			}
			x := o.IPs[0]
			if dp {
				if isLast {
					// reserve the app should still have = held IPs not in use by another live bound pod
					inUse := map[string]bool{}
					me := h.pod(o.Op.A).Key()
					for _, b := range liveBound(w) {
						if b.PodKey != me {
							for _, ip := range b.IPs {
								inUse[ip] = true
							}
						}
					}
					// (an IP that a filter has meanwhile handed to another pod of the app which is still waiting to be bound — e.g.
					// after a failed provider call — is not in reserve any more)
					k := keyOfSpec(h.pod(o.Op.A))
					takenByOther := map[string]bool{}
					for _, s := range o.Before {
						if s.Alloc && s.Key != k.PoolPrefix() && s.Key != k.KeyInDB {
							takenByOther[s.IP] = true
						}
					}
					var free []string
					ok := false
					for ip := range appHeld {
						if !inUse[ip] && !takenByOther[ip] && dead[holder[ip]] && known[holder[ip]] {
							free = append(free, ip)
							if ip == x {
								ok = true
							}
						}
					}
					for _, s := range o.Before {
						if s.Alloc && s.Key == k.KeyInDB && s.IP == x {
							ok = true // allocated to this very pod during an earlier filter
						}
					}
					// whatever the order of the old pod's delete event and this scheduling: an app that already holds as many IPs as it
					// has replicas (in use, held by a pod that is gone, or in reserve) is not given a further, fresh one
					limit := replicas
					if h.PoolSize > 0 {
						limit = h.PoolSize
					}
					heldBefore, wasApps := 0, false
					for _, s := range o.Before {
						if s.Alloc && strings.HasPrefix(s.Key, k.PoolPrefix()) {
							heldBefore++
							if s.IP == x {
								wasApps = true
							}
						}
					}
					if !wasApps && limit >= 0 && heldBefore >= limit {
						return &Finding{Clause: "fresh-ip-although-app-holds-its-share", Culprit: "sched",
							Detail: fmt.Sprintf("%s: pod %s bound with the fresh IP %s although the app already held %d IPs with %d replicas", histString(hist), h.pod(o.Op.A).Name, x, heldBefore, limit)}, ""
					}
					if len(free) > 0 && !ok {
						return &Finding{Clause: "fresh-ip-while-app-holds-reserve", Culprit: "sched",
							Detail: fmt.Sprintf("%s: replacement pod %s bound with %s although the app still holds unused %v (no scale-down / release since they were handed out)",
								histString(hist), h.pod(o.Op.A).Name, x, free)}, ""
					}
				}
				appHeld[x] = true
				holder[x] = o.EventUID
			} else {
				if prev, ok := held[o.Op.A]; ok && isLast && prev != x {
					return &Finding{Clause: "different-ip-for-identity", Culprit: "sched",
						Detail: fmt.Sprintf("%s: %s was bound with %s before and nothing ended that reservation, now bound with %s", histString(hist), h.pod(o.Op.A).Name, prev, x)}, ""
				}
				held[o.Op.A] = x
				alive[o.Op.A] = true
				endIdentityReservations()
			}
		}
	}
	// model state: obligations still in force
	var st []string
	for i, ip := range held {
		st = append(st, fmt.Sprintf("held[%d]=%s", i, ip))
	}
	for ip := range appHeld {
		st = append(st, fmt.Sprintf("app:%s dead=%v known=%v", ip, dead[holder[ip]], known[holder[ip]]))
	}
	sort.Strings(st)
	return nil, strings.Join(st, ",")
}

func oracleC02AtFilter(h *HistSys, hist []Op, w *world.World, obs Obs) *Finding {
	if !isSched(obs.Op.Kind) {
		return nil
	}
	pol := h.Class.Policy
	if pol == "" && h.Class.Kind != "dppool" && h.Class.Kind != "stspool" {
		return nil
	}
	spec := h.pod(obs.Op.A)
	k := keyOfSpec(spec)
	var own, reserve []string
	for _, s := range obs.Before {
		if !s.Alloc {
			continue
		}
		if s.Key == k.KeyInDB {
			own = append(own, s.IP)
		} else if k.Deployment() && s.Key == k.PoolPrefix() {
			reserve = append(reserve, s.IP)
		}
	}
	held := own
	what := "own"
	if len(held) == 0 {
		held = reserve
		what = "reserve"
	}
	if len(held) == 0 {
		return nil
	}
	// filter must only offer nodes from which a held IP is routable
	if obs.Err == "" || strings.HasPrefix(obs.Err, "bind:") {
		for _, n := range obs.Offered {
			ok := false
			for _, ip := range held {
				if routableNodes(h.Cfg, ip)[n] {
					ok = true
				}
			}
			if !ok {
				return &Finding{Clause: "offered-node-not-routable-for-held-ip", Culprit: "filter",
					Detail: fmt.Sprintf("%s: pod %s holds %s IPs %v but filter offered %v", histString(hist), spec.Name, what, held, obs.Offered)}
			}
		}
	}
	if obs.Err != "" {
		return nil // not bound: nothing was handed out
	}
	for _, ip := range obs.IPs {
		in := false
		for _, r := range held {
			if r == ip {
				in = true
			}
		}
		if !in {
			return &Finding{Clause: "different-ip-while-reserved", Culprit: "sched",
				Detail: fmt.Sprintf("%s: pod %s was bound with %v while its %s IPs %v were still held", histString(hist), spec.Name, obs.IPs, what, held)}
		}
	}
	return nil
}

// stickyFinal (concurrent part): with a reserving policy and replicas 1, every binding of the identity has the same IP.
func oracleC02Concurrent(w *world.World, s *coop.Sched, final bool) *Finding {
	if v, ok := w.MustKeep["violation"]; ok {
		return &Finding{Clause: "reserve-of-immutable-deployment-lost", Detail: v}
	}
	first := map[string]string{}
	for _, b := range w.Bindings {
		if allowed, ok := w.MustKeep["replacement:"+b.PodKey]; ok {
			// a replacement pod of a deployment must take one of the IPs the pods it replaces held
			for _, ip := range b.IPs {
				if !strings.Contains(","+allowed+",", ","+ip+",") {
					return &Finding{Clause: "replacement-pod-got-fresh-ip", Detail: fmt.Sprintf("replacement pod %s bound with %s, the pods it replaces held [%s] of which one had to stay in reserve", b.PodKey, ip, allowed)}
				}
			}
			continue
		}
		if _, multi := w.MustKeep["replacement:ns/d-r1-w"]; multi {
			continue // several pods of the deployment hold different IPs by construction
		}
		id := b.PodKey
		if strings.HasPrefix(b.PodKey, "ns/d-") {
			id = "deployment-d"
		}
		ips := strings.Join(b.IPs, ",")
		if f, ok := first[id]; ok && f != ips {
			return &Finding{Clause: "different-ip-after-reschedule", Detail: fmt.Sprintf("%s first bound with %s, later (pod %s uid %s) with %s", id, f, b.PodKey, b.UID, ips)}
		}
		first[id] = ips
	}
	return nil
}

// ---------------------------------------------------------------------------------------------
// C03: release exactly when the policy says (reference model evaluated at quiescent states)

// policyAllows says whether the documented policy lets the allocation s persist given the API truth in w.
func policyAllows(h *HistSys, w *world.World, s world.IPState, countUnderPrefix func(prefix string) int, strict bool) (bool, string) {
	if s.Reserved {
		return true, "admin reservation"
	}
	k := util.ParseKey(s.Key)
	if k.AppName == "" && k.PoolName == "" {
		return true, "unparsed key"
	}
	dpReplicas := w.Replicas("Deployment", k.Namespace, k.AppName)
	if k.PodName != "" {
		podKey := k.Namespace + "/" + k.PodName
		if w.Alive(podKey) {
			if !strict && (s.UID == "" || s.UID == string(w.Pods[podKey].UID)) {
				return true, "live pod"
			}
			// strict (must-keep direction): only a pod that was actually bound with this IP owns it
			for _, b := range liveBound(w) {
				if b.PodKey == podKey {
					for _, ip := range b.IPs {
						if ip == s.IP {
							return true, "live bound pod"
						}
					}
				}
			}
		}
		if k.PoolName != "" || s.Policy == 2 {
			return true, "never/pool"
		}
		if s.Policy == 1 {
			if k.StatefulSet() {
				r := w.Replicas("StatefulSet", k.Namespace, k.AppName)
				idx := podIndex(k.PodName)
				return r >= 0 && idx >= 0 && idx < r, fmt.Sprintf("immutable sts: replicas=%d index=%d", r, idx)
			}
			return false, "immutable: dead deployment/other pod key must be re-keyed or released"
		}
		return false, "default policy, pod gone"
	}
	// reserve key
	if k.PoolName != "" {
		return true, "pool reserve"
	}
	if k.Deployment() {
		if s.Policy == 2 {
			return true, "never reserve"
		}
		if s.Policy == 1 {
			n := countUnderPrefix(k.PoolPrefix())
			return dpReplicas > 0 && n <= dpReplicas, fmt.Sprintf("immutable dp reserve: replicas=%d held=%d", dpReplicas, n)
		}
	}
	return false, "reserve key without reserving policy"
}

func podIndex(name string) int {
	i := strings.LastIndex(name, "-")
	if i < 0 {
		return -1
	}
	n := 0
	if i+1 >= len(name) {
		return -1
	}
	for _, c := range name[i+1:] {
		if c < '0' || c > '9' {
			return -1
		}
		n = n*10 + int(c-'0')
	}
	return n
}

func prefixCounter(mem []world.IPState) func(string) int {
	return func(prefix string) int {
		n := 0
		for _, s := range mem {
			if s.Alloc && strings.HasPrefix(s.Key, prefix) {
				n++
			}
		}
		return n
	}
}

func oracleC03(h *HistSys, hist []Op, w *world.World, obs Obs) *Finding {
	// q1: quiescent state of the predecessor
	pw, _, _ := BuildHist(h, hist[:len(hist)-1])
	// what the predecessor really records (before its pending events are handled): an IP that only the predecessor's closure
	// would have adopted (pod-IP sync after a store loss) was never recorded, so the successor cannot have released it
	recorded := map[string]bool{}
	for _, s := range pw.MemDump() {
		if s.Alloc {
			recorded[s.IP] = true
		}
	}
	// (where the pod-IP sync is in the alphabet the closure is one whole periodic tick, as galaxy-ipam runs it: the resync pass
	// followed by the pod-IP sync)
	tick := func(x *world.World) {
		if h.Ops["syncpodips"] {
			for len(x.Pending) > 0 {
				x.Deliver(0)
			}
			x.Tick()
		} else {
			quiesce(x)
		}
	}
	tick(pw)
	q1 := pw.MemDump()
	// q2: quiescent successor (w is not reused by the BFS after the oracle)
	cBefore := Canon(w)
	_ = cBefore
	tick(w)
	q2 := w.MemDump()
	cnt2 := prefixCounter(q2)
	// (i) no IP stays assigned unless its policy reserves it. A leak is attributed to the transition that created it:
	// an allocation that was already a leak (same IP, same key) in the predecessor's quiescent state is not reported again.
	cnt1 := prefixCounter(q1)
	old := map[string]bool{}
	for _, s := range q1 {
		if s.Alloc {
			if ok, _ := policyAllows(h, pw, s, cnt1, false); !ok {
				old[s.IP+"|"+s.Key] = true
			}
		}
	}
	for _, s := range q2 {
		if !s.Alloc || old[s.IP+"|"+s.Key] {
			continue
		}
		if ok, why := policyAllows(h, w, s, cnt2, false); !ok {
			return &Finding{Clause: "leak-at-quiescence", Culprit: keyShape(s.Key) + "/p" + fmt.Sprint(s.Policy) + ":" + obs.Op.Kind,
				Detail: fmt.Sprintf("%s; deliver-all; resync  => %v still allocated (%s)", histString(hist), s, why)}
		}
	}
	// (ii) no spurious release: what the policy reserves before and after the op is still there
	if obs.Op.Kind == "storeloss" || obs.Op.Kind == "drop" {
		// storeloss: the environment destroyed the store in this very step. drop: the predecessor's quiescent closure delivered
		// the event that is lost here, so the two closures are not comparable (no galaxy code runs in a drop step).
		return nil
	}
	posted := map[string]bool{}
	for _, e := range obs.Posted {
		posted[e.IP] = true
	}
	m2 := map[string]world.IPState{}
	for _, s := range q2 {
		m2[s.IP] = s
	}
	for _, s := range q1 {
		if !s.Alloc || s.Reserved || posted[s.IP] || !recorded[s.IP] {
			continue
		}
		okBefore, _ := policyAllows(h, pw, s, cnt1, true)
		okAfter, why := policyAllows(h, w, s, cnt1, true)
		if !okBefore || !okAfter {
			continue
		}
		k := util.ParseKey(s.Key)
		if k.Deployment() || k.PoolName != "" {
			if len(obs.Posted) > 0 {
				continue
			}
			// app/pool level: the number of IPs held under the prefix must not drop below min(before, bound in force); "before"
			// counts what the predecessor records, not what only its closure would have adopted (see `recorded`)
			prefix := k.PoolPrefix()
			bound := 0
			for _, x := range q1 {
				if x.Alloc && strings.HasPrefix(x.Key, prefix) && recorded[x.IP] {
					bound++
				}
			}
			if k.PoolName == "" && s.Policy == 1 {
				if r := w.Replicas("Deployment", k.Namespace, k.AppName); r < bound {
					bound = r
				}
			}
			if k.PoolName == "" && s.Policy == 0 {
				continue
			}
			if k.PoolName != "" && s.Policy == 0 && k.PodName != "" && !w.Alive(k.Namespace+"/"+k.PodName) {
				continue
			}
			if cnt2(prefix) < bound {
				return &Finding{Clause: "spurious-release", Culprit: keyShape(s.Key) + "/p" + fmt.Sprint(s.Policy),
					Detail: fmt.Sprintf("%s: prefix %s held %d IPs, policy keeps %d, now %d", histString(hist), prefix, cnt1(prefix), bound, cnt2(prefix))}
			}
			continue
		}
		t := m2[s.IP]
		if !t.Alloc || t.Key != s.Key {
			return &Finding{Clause: "spurious-release", Culprit: keyShape(s.Key) + "/p" + fmt.Sprint(s.Policy),
				Detail: fmt.Sprintf("%s: %v was reserved by policy (%s) before and after the step but is now %v", histString(hist), s, why, t)}
		}
	}
	// a second resync pass must change nothing
	before := fmt.Sprint(q2, w.StoreDump())
	_ = w.Resync()
	if after := fmt.Sprint(w.MemDump(), w.StoreDump()); stripTimes(after) != stripTimes(before) {
		return &Finding{Clause: "second-resync-changes-state", Culprit: "resync", Detail: fmt.Sprintf("%s: %s -> %s", histString(hist), before, after)}
	}
	return nil
}

func stripTimes(s string) string {
	// IPState prints Updated as the last integer field; drop digits runs longer than 12
	var b strings.Builder
	run := 0
	start := 0
	for i, c := range s {
		if c >= '0' && c <= '9' {
			if run == 0 {
				start = b.Len()
			}
			run++
		} else {
			if run > 12 {
				t := b.String()[:start]
				b.Reset()
				b.WriteString(t)
			}
			run = 0
		}
		b.WriteRune(c)
		_ = i
	}
	return b.String()
}

func keyShape(key string) string {
	k := util.ParseKey(key)
	shape := strings.TrimSuffix(k.AppTypePrefix, "_")
	if k.PoolName != "" {
		shape = "pool-" + shape
	}
	if k.PodName == "" {
		shape += "-reserve"
	}
	return shape
}

func init() {
	assume := append([]string{"explicit-state BFS over operation histories; a state is rebuilt by replaying its history on a fresh instance (every transition is an execution of the implementation)",
		"canonical state: truth pods, IPAM tables, FloatingIP objects, pending events, replicas; UIDs renamed by first appearance, timestamps reduced to ranks"}, assumeIPAM...)
	register(&Property{ID: "C02", Level: "model_checking", QuickS: 160, ThoroughS: 1200, Assume: assume,
		Rule: "BFS over histories of {create, sched(node first/last), delete, finish, deliver(i), drop, resync, scale, apirelease} per workload x policy class on a two-pool/two-subnet topology; " +
			"on every sched transition the stickiness oracle compares the binding with the IPs held for the identity right before Filter; plus exhaustive schedules of old-incarnation events vs. new incarnation's filter/bind",
		Jobs: func(tier string) []Job {
			depth := 7
			if tier == "thorough" {
				depth = 9
			}
			var jobs []Job
			for _, h := range histSystems(false) {
				if h.Class.Policy == "" && h.Class.Kind != "dppool" && h.Class.Kind != "stspool" {
					continue
				}
				h.ModelCanon = c02ModelCanon
				jobs = append(jobs, histJob("C02", h.jobName(), h, depth, oracleC02, nil))
			}
			for _, h := range cloudHistSystems() {
				h.ModelCanon = c02ModelCanon
				jobs = append(jobs, histJob("C02", h.jobName(), h, depth-2, oracleC02, nil))
			}
			for _, sc := range c02Concurrent(tier) {
				jobs = append(jobs, ExploreJob("C02", sc, oracleC02Concurrent))
			}
			return jobs
		}})
	replayers["C02"] = func(tier string, v coop.Violation) int {
		if len(v.Ops) > 0 {
			return replayHist("C02", append(histSystems(false), cloudHistSystems()...), oracleC02, v)
		}
		return replayExplore("C02", c02Concurrent(tier), oracleC02Concurrent, v)
	}
	register(&Property{ID: "C03", Level: "model_checking", QuickS: 160, ThoroughS: 1200, Assume: assume,
		Rule: "BFS over histories (same alphabet as C02, incl. lost events, scale, delete-app, API release) per workload x policy class; every transition is followed by 'deliver all; resync' and the " +
			"quiescent state is compared with the documented-policy reference model (leak direction and spurious-release direction); a second resync must be a no-op; plus exhaustive schedules (bounded preemptions) of old-incarnation events, the new incarnation's filter/bind and a resync pass: no IP of a live pod is released",
		Jobs: func(tier string) []Job {
			depth := 6
			if tier == "thorough" {
				depth = 8
			}
			var jobs []Job
			for _, h := range c03Systems() {
				jobs = append(jobs, histJob("C03", h.jobName(), h, depth, oracleC03, nil))
			}
			for _, h := range cloudHistSystems() {
				jobs = append(jobs, histJob("C03", h.jobName(), h, depth-2, oracleC03, nil))
			}
			for _, sc := range c03Concurrent(tier) {
				jobs = append(jobs, ExploreJob("C03", sc, oracleC03Concurrent))
			}
			return jobs
		}})
	replayers["C03"] = func(tier string, v coop.Violation) int {
		if len(v.Ops) > 0 {
			return replayHist("C03", append(c03Systems(), cloudHistSystems()...), oracleC03, v)
		}
		return replayExplore("C03", c03Concurrent(tier), oracleC03Concurrent, v)
	}
}

// c03Concurrent: the events of an old incarnation, the scheduling of the new one and a resync pass run concurrently; no policy
// releases the IP of a pod that is alive.
func c03Concurrent(tier string) []*Scenario {
	b := boundsFor(tier)
	out := append(famRecreate(false, b, ""), famRolling(false, b)...)
	// the release API next to the events of the old incarnation and the scheduling of the new one
	return append(out, famAPIRelease(false, b)...)
}

func oracleC03Concurrent(w *world.World, s *coop.Sched, final bool) *Finding {
	mem, f := memByIP(w)
	if f != nil {
		return nil
	}
	for _, b := range liveBound(w) {
		key := podKeyInDB(w, b.PodKey)
		for _, ip := range b.IPs {
			if m := mem[ip]; !m.Alloc || m.Key != key {
				return &Finding{Clause: "released-while-pod-alive", Culprit: keyShape(key), Detail: fmt.Sprintf("pod %s(uid %s) is alive and bound with %s, which no policy releases, but the tables say {%v}; store log %v",
					b.PodKey, b.UID, ip, m, tail(w.StoreLog, 4))}
			}
		}
	}
	return nil
}

func c02Concurrent(tier string) []*Scenario {
	b := boundsFor(tier)
	var out []*Scenario
	for _, s := range famRecreate(false, b, "") {
		if strings.Contains(s.Class, "default") {
			continue
		}
		out = append(out, s)
	}
	for _, s := range famRolling(false, b) {
		if strings.Contains(s.Class, "default") {
			continue
		}
		out = append(out, s)
	}
	out = append(out, famTwoDeletes(false, b)...)
	out = append(out, famReloadReplacement(b)...)
	out = append(out, famLagReplacement(b)...)
	return out
}

func replayHist(prop string, systems []*HistSys, oracle HistOracle, v coop.Violation) int {
	ops := parseOps(v.Ops)
	for _, h := range systems {
		if h.jobName() != v.Scenario {
			continue
		}
		w, obs, err := BuildHist(h, ops)
		if err != nil {
			fmt.Println("start failed:", err)
			return 2
		}
		fmt.Println("history:", histString(ops))
		fmt.Println("state after history:", Canon(w))
		if f := oracle(h, ops, w, obs); f != nil {
			fmt.Printf("VIOLATION property=%s replay=(replayed)\n  %s: %s\n", prop, f.Clause, f.Detail)
			return 1
		}
		fmt.Println("no violation on replay")
		return 0
	}
	fmt.Println("scenario not found:", v.Scenario)
	return 2
}
