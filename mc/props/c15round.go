package props

import (
	"fmt"
	"strings"
	"time"

	networkv1 "k8s.io/api/networking/v1"
	"verif.local/mc/nfsim"
)

// c15RoundTripJob: event sequences that leave a state and come back to it (A -> B -> A, at most two events each way, every
// order of each leg) on ONE manager, compared with a fresh full sync of A. The pair job (c15EventJob) starts every
// sequence from a manager that has just been built; whatever a handler remembers of an object it has seen before — a pod
// deleted and re-created under its name with its address, a policy removed and added again — only shows from a
// non-initial state.
func c15RoundTripJob(shard, nshards int, tier string) Job {
	name := fmt.Sprintf("event-round-trips/shard%d", shard)
	return Job{Name: name, Weight: 2, Run: func(deadline time.Time) *ScenResult {
		t0 := time.Now()
		r := newCaseResult()
		states := c15EventStates(tier)
		// the selected pod itself leaves and returns
		for _, pl := range [][]string{{"in-podsel"}, {"in-ipblock"}, {"in-podsel", "eg-podsel-port"}, {"in-denyall"}} {
			ps := []string{"db", "cli2"}
			states = append(states, c15State{Name: fmt.Sprintf("pods=%v policies=%v", ps, pl), C: mkCluster(ps, pl), Pods: ps})
		}
		maxLeg := 2
		n, transitions := 0, 0
		finish := func() *ScenResult {
			sr := r.toScen(name, t0, map[string]int{"states": len(states), "max_events_per_leg": maxLeg})
			sr.States, sr.Transitions, sr.MaxDepth = len(r.distinct), transitions, 2*maxLeg+2
			return sr
		}
		for ai := range states {
			for bi := range states {
				if bi == ai {
					continue
				}
				out := c15EventDiff(states[ai].C, states[bi].C)
				back := c15EventDiff(states[bi].C, states[ai].C)
				if len(out) == 0 || len(out) > maxLeg || len(back) == 0 || len(back) > maxLeg {
					continue
				}
				for _, p1 := range permutations(len(out)) {
					for _, p2 := range permutations(len(back)) {
						n++
						if n%nshards != shard {
							continue
						}
						if time.Now().After(deadline) {
							r.exhausted = false
							return finish()
						}
						k := nfsim.New()
						w := newPolicyWorld(k)
						cur := pwCluster{Pods: append([]pwPod{}, states[ai].C.Pods...), Policies: append([]*networkv1.NetworkPolicy{}, states[ai].C.Policies...)}
						w.setCluster(cur)
						w.pm.Run()
						var order []string
						for _, i := range p1 {
							order = append(order, out[i].String())
						}
						order = append(order, "|")
						for _, i := range p2 {
							order = append(order, back[i].String())
						}
						desc := fmt.Sprintf("state:  %s\n    via:    %s\n    events: %v", states[ai].Name, states[bi].Name, order)
						r.evals++
						for _, i := range p1 {
							applyEvent(w, &cur, out[i])
							transitions++
						}
						for _, i := range p2 {
							applyEvent(w, &cur, back[i])
							transitions++
						}
						w.pm.Run()
						transitions++
						s1 := glxOf(k)
						ips := map[string]bool{}
						for _, p := range cur.Pods {
							ips[p.IP] = true
						}
						d := c15Compare(s1, freshState(states[ai].C), livePodChainNames(states[ai].C), ips)
						r.distinct[hashOf(ai, bi, p1, p2, s1.String())] = true
						if len(r.samples) < 3 && r.evals%97 == 1 {
							r.samples = append(r.samples, desc)
						}
						if len(d.other) > 0 || len(d.staleReferencedPolicyChains) > 0 {
							r.violate("C15", name, "events", "state-after-round-trip-and-sync-differs-from-fresh-sync", "Run",
								fmt.Sprintf("%s\n    %s %v", desc, strings.Join(d.other, "\n    "), d.staleReferencedPolicyChains), []string{desc})
							continue
						}
						if len(d.stalePodChainsOfGonePods) > 0 {
							r.violate("C15", name, "", "pod-chain-of-vanished-pod-never-removed", "events", fmt.Sprintf("%s\n    %v", desc, d.stalePodChainsOfGonePods), []string{desc})
						}
						if len(d.staleJumpsOfFormerIPs) > 0 {
							r.violate("C15", name, "", "jump-rule-of-former-pod-ip-never-removed", "events", fmt.Sprintf("%s\n    %v", desc, d.staleJumpsOfFormerIPs), []string{desc})
						}
					}
				}
			}
		}
		return finish()
	}}
}
