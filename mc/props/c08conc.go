package props

import (
	"fmt"
	"strings"
	"time"

	corev1 "k8s.io/api/core/v1"

	"verif.local/mc/coop"
	"verif.local/mc/world"
)

// C08 under concurrency: a pod asking for two ranges is scheduled while the periodic pod-IP sync adopts the address of a running
// pod whose record was lost — an address that lies in one of the requested ranges. Whoever wins, a pod bound with k IPs holds
// exactly those k in the tables and in the store, and a pod that was refused holds none.
func c08ConcurrentScenarios(tier string) []*Scenario {
	b := map[string]int{"preempt": 2}
	if tier == "thorough" {
		b = map[string]int{"preempt": 3}
	}
	cfg := world.Config{Pools: c09Pools([]string{"10.10.1.1~10.10.1.3"}, nil), Nodes: nodesN1N2}
	sts := wkClass{"sts", ""}
	return []*Scenario{{Name: "multi-ip-bind/vs-pod-ip-sync", Class: "concurrent", Cfg: cfg, Bounds: b, Weight: 3,
		Build: func(w *world.World) []Thread {
			sts.setWorkload(w, 3)
			a := sts.pod(0)
			w.CreatePod(a)
			mustSchedule(w, a.Key())
			w.SetPhase(a.Key(), corev1.PodRunning)
			ip := w.Bindings[0].IPs[0]
			for n := range w.FIPs {
				delete(w.FIPs, n)
			}
			if err := w.Restart(); err != nil {
				panic(err)
			}
			w.Bindings = nil // (a's binding belongs to an earlier life of the store)
			x := sts.pod(1)
			x.Ranges = `[["` + ip + `","10.10.1.3"],["10.10.1.2"]]`
			if ip == "10.10.1.2" {
				x.Ranges = `[["10.10.1.1"],["10.10.1.2~10.10.1.3"]]`
			}
			w.CreatePod(x)
			return []Thread{{"syncpodips", func() { w.SyncPodIPs() }}, {"sched-x", scheduleRetry(w, x.Key(), 1)}}
		},
		Final: func(w *world.World) {
			for len(w.Pending) > 0 {
				w.Deliver(0)
			}
		}},
		// the pod asking for two ranges is the next incarnation of a pod whose delete event is handled at the same time
		{Name: "multi-ip-bind/vs-late-unbind", Class: "concurrent", Cfg: cfg, Bounds: b, Weight: 3,
			Build: func(w *world.World) []Thread {
				sts.setWorkload(w, 3)
				x := sts.pod(1)
				x.Ranges = `[["10.10.1.1"],["10.10.1.2~10.10.1.3"]]`
				w.CreatePod(x)
				mustSchedule(w, x.Key())
				// the old incarnation failed (that notification has been handled: its addresses are free again) and was deleted (that
				// notification is still to come)
				w.SetPhase(x.Key(), corev1.PodFailed)
				deliverAll(w, takePending(w))()
				w.DeletePod(x.Key())
				old := takePending(w)
				w.Bindings = nil
				w.CreatePod(x)
				return []Thread{{"deliver-old", deliverAll(w, old)}, {"sched-x", scheduleRetry(w, x.Key(), 2)}}
			},
			Final: func(w *world.World) {
				for len(w.Pending) > 0 {
					w.Deliver(0)
				}
			}}}
}

func oracleC08Concurrent(w *world.World, s *coop.Sched, final bool) *Finding {
	if !final {
		return nil
	}
	mem, f := memByIP(w)
	if f != nil {
		return f
	}
	st := storeByIP(w)
	key := "sts_ns_a_a-1"
	var heldMem, heldStore []string
	for ip, m := range mem {
		if m.Alloc && m.Key == key {
			heldMem = append(heldMem, ip)
		}
	}
	for ip, so := range st {
		if so.Key == key {
			heldStore = append(heldStore, ip)
		}
	}
	var bound []string
	for _, b := range w.Bindings {
		if b.PodKey == "ns/a-1" {
			bound = b.IPs
		}
	}
	if len(bound) == 0 {
		if len(heldMem) > 0 || len(heldStore) > 0 {
			return &Finding{Clause: "ips-kept-by-a-pod-that-was-not-bound", Detail: fmt.Sprintf("a-1 was refused but holds %v in the tables and %v in the store", heldMem, heldStore)}
		}
		return nil
	}
	for _, ip := range bound {
		if m := mem[ip]; !m.Alloc || m.Key != key {
			return &Finding{Clause: "bound-ip-not-held-in-the-tables", Detail: fmt.Sprintf("a-1 is bound with %v but the tables say {%v} for %s", bound, m, ip)}
		}
		if so, ok := st[ip]; !ok || so.Key != key {
			return &Finding{Clause: "bound-ip-not-held-in-the-store", Detail: fmt.Sprintf("a-1 is bound with %v but the store says {%v present=%v} for %s", bound, so, ok, ip)}
		}
	}
	if len(heldMem) != len(bound) || len(heldStore) != len(bound) {
		return &Finding{Clause: "number-of-held-ips-differs-from-the-request", Detail: fmt.Sprintf("a-1 is bound with %s but holds %v in the tables and %v in the store", strings.Join(bound, ","), heldMem, heldStore)}
	}
	return nil
}

// c08DpReserveJob: a replacement pod of a reserving deployment that carries requested ranges while the deployment holds an IP
// in reserve (galaxy does not support ranges for such pods: the request has to be refused without leaving anything behind; if
// it were served, the pod would have to end up with exactly one IP per range).
func c08DpReserveJob() Job {
	name := "multi-ip/deployment-with-reserve"
	return Job{Name: name, Weight: 1, Run: func(deadline time.Time) *ScenResult {
		t0 := time.Now()
		r := newCaseResult()
		for _, pol := range []string{"immutable", "never"} {
			for _, req := range c08Requests(2) {
				for _, node := range []string{"n1", "n2"} {
					w := world.New(c08Cfg)
					if err := w.Start(); err != nil {
						panic(err)
					}
					w.SetDeployment("ns", "d", 1)
					old := world.PodSpec{Name: "d-r1-x", NS: "ns", OwnerKind: "ReplicaSet", OwnerName: "d-r1", Policy: pol}
					w.CreatePod(old)
					if _, err := w.Schedule(old.Key()); err != nil {
						panic(err)
					}
					w.DeletePod(old.Key())
					for len(w.Pending) > 0 {
						w.Deliver(0)
					}
					repl := world.PodSpec{Name: "d-r1-y", NS: "ns", OwnerKind: "ReplicaSet", OwnerName: "d-r1", Policy: pol, Ranges: rangesJSON(req)}
					p := w.CreatePod(repl)
					key := keyOfSpec(repl).KeyInDB
					desc := fmt.Sprintf("deployment (%s) with one IP in reserve, replacement pod requesting %s, node %s", pol, repl.Ranges, node)
					r.evals++
					offered, ferr := w.Filter(repl.Key())
					ok := false
					for _, n := range offered {
						if n == node {
							ok = true
						}
					}
					bound := false
					if ferr == nil && ok {
						bound = w.Bind(p.Namespace, p.Name, string(p.UID), node) == nil
					}
					owned := ownedIPs(w, key)
					r.distinct[hashOf(desc, bound, owned)] = true
					switch {
					case !bound && len(owned) > 0:
						r.violate("C08", name, fmt.Sprintf("k=%d", len(req)), "ips-kept-by-a-pod-that-was-not-bound", "filter", fmt.Sprintf("%s: the pod was not bound but holds %v", desc, owned), []string{desc})
					case bound && len(owned) != len(req):
						r.violate("C08", name, fmt.Sprintf("k=%d", len(req)), "wrong-number-of-ips", "bind", fmt.Sprintf("%s: bound, holds %v", desc, owned), []string{desc})
					case bound:
						for _, ip := range owned {
							in := false
							for _, ri := range req {
								if inRangeList(ip, c08Menu[ri]) {
									in = true
								}
							}
							if !in {
								r.violate("C08", name, fmt.Sprintf("k=%d", len(req)), "ip-outside-its-range", "bind", fmt.Sprintf("%s: holds %v", desc, owned), []string{desc})
							}
						}
					}
				}
			}
		}
		return r.toScen(name, t0, map[string]int{"k": 2})
	}}
}
