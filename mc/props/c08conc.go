package props

import (
	"fmt"
	"strings"

	corev1 "k8s.io/api/core/v1"

	"verif.local/mc/coop"
	"verif.local/mc/world"
)

// C08 under concurrency: a pod asking for two ranges is scheduled while the periodic pod-IP sync adopts the address of a running
// pod whose record was lost — an address that lies in one of the requested ranges. Whoever wins, a pod bound with k IPs holds
// exactly those k in the tables and in the store, and a pod that was refused holds none.
func c08ConcurrentScenarios(tier string) []*Scenario {
	b := map[string]int{"preempt": 2}
	if tier == "thorough" {
		b = map[string]int{"preempt": 3}
	}
	cfg := world.Config{Pools: c09Pools([]string{"10.10.1.1~10.10.1.3"}, nil), Nodes: nodesN1N2}
	sts := wkClass{"sts", ""}
	return []*Scenario{{Name: "multi-ip-bind/vs-pod-ip-sync", Class: "concurrent", Cfg: cfg, Bounds: b, Weight: 3,
		Build: func(w *world.World) []Thread {
			sts.setWorkload(w, 3)
			a := sts.pod(0)
			w.CreatePod(a)
			mustSchedule(w, a.Key())
			w.SetPhase(a.Key(), corev1.PodRunning)
			ip := w.Bindings[0].IPs[0]
			for n := range w.FIPs {
				delete(w.FIPs, n)
			}
			if err := w.Restart(); err != nil {
				panic(err)
			}
			w.Bindings = nil // (a's binding belongs to an earlier life of the store)
			x := sts.pod(1)
			x.Ranges = `[["` + ip + `","10.10.1.3"],["10.10.1.2"]]`
			if ip == "10.10.1.2" {
				x.Ranges = `[["10.10.1.1"],["10.10.1.2~10.10.1.3"]]`
			}
			w.CreatePod(x)
			return []Thread{{"syncpodips", func() { w.SyncPodIPs() }}, {"sched-x", scheduleRetry(w, x.Key(), 1)}}
		},
		Final: func(w *world.World) {
			for len(w.Pending) > 0 {
				w.Deliver(0)
			}
		}}}
}

func oracleC08Concurrent(w *world.World, s *coop.Sched, final bool) *Finding {
	if !final {
		return nil
	}
	mem, f := memByIP(w)
	if f != nil {
		return f
	}
	st := storeByIP(w)
	key := "sts_ns_a_a-1"
	var heldMem, heldStore []string
	for ip, m := range mem {
		if m.Alloc && m.Key == key {
			heldMem = append(heldMem, ip)
		}
	}
	for ip, so := range st {
		if so.Key == key {
			heldStore = append(heldStore, ip)
		}
	}
	var bound []string
	for _, b := range w.Bindings {
		if b.PodKey == "ns/a-1" {
			bound = b.IPs
		}
	}
	if len(bound) == 0 {
		if len(heldMem) > 0 || len(heldStore) > 0 {
			return &Finding{Clause: "ips-kept-by-a-pod-that-was-not-bound", Detail: fmt.Sprintf("a-1 was refused but holds %v in the tables and %v in the store", heldMem, heldStore)}
		}
		return nil
	}
	for _, ip := range bound {
		if m := mem[ip]; !m.Alloc || m.Key != key {
			return &Finding{Clause: "bound-ip-not-held-in-the-tables", Detail: fmt.Sprintf("a-1 is bound with %v but the tables say {%v} for %s", bound, m, ip)}
		}
		if so, ok := st[ip]; !ok || so.Key != key {
			return &Finding{Clause: "bound-ip-not-held-in-the-store", Detail: fmt.Sprintf("a-1 is bound with %v but the store says {%v present=%v} for %s", bound, so, ok, ip)}
		}
	}
	if len(heldMem) != len(bound) || len(heldStore) != len(bound) {
		return &Finding{Clause: "number-of-held-ips-differs-from-the-request", Detail: fmt.Sprintf("a-1 is bound with %s but holds %v in the tables and %v in the store", strings.Join(bound, ","), heldMem, heldStore)}
	}
	return nil
}
