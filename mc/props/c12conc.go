package props

import (
	corev1 "k8s.io/api/core/v1"

	"encoding/json"
	"fmt"
	"sort"
	"strings"
	"time"

	"verif.local/mc/coop"
)

// C12, "never on earlier or concurrent requests": requests for different containers run as threads of the cooperative
// scheduler (scheduling points: plugin invocations, state-file accesses, lock operations, accesses of the process
// environment). Under every schedule each container's plugins must receive exactly what they receive when its request runs alone.

func invCanon(i Invocation) string {
	b, _ := json.Marshal(i.Stdin)
	// (CNI_ARGS as the parsed key/value set: the order of the extended arguments follows a map and carries no meaning)
	a, _ := json.Marshal(i.Args)
	return fmt.Sprintf("%s %s cid=%s if=%s netns=%s args=%s stdin=%s", i.Cmd, i.Type, i.CID, i.If, i.Netns, a, b)
}

func c12ConcurrentJobs(tier string) []Job {
	type scen struct {
		name    string
		setup   []cniReq
		threads []cniReq
	}
	scens := []scen{
		{"concurrent/ADD(c1:p-ab)||ADD(c2:p-bc-if)", nil, []cniReq{{"ADD", "c1", "p-ab"}, {"ADD", "c2", "p-bc-if"}}},
		{"concurrent/ADD(c1:p-args)||ADD(c2:p-json)", nil, []cniReq{{"ADD", "c1", "p-args"}, {"ADD", "c2", "p-json"}}},
		{"concurrent/ADD(c1:p-ab)||DEL(c2:p-json)", []cniReq{{"ADD", "c2", "p-json"}}, []cniReq{{"ADD", "c1", "p-ab"}, {"DEL", "c2", "p-json"}}},
		{"concurrent/DEL(c1:p-ab)||DEL(c2:p-bc-if)", []cniReq{{"ADD", "c1", "p-ab"}, {"ADD", "c2", "p-bc-if"}}, []cniReq{{"DEL", "c1", "p-ab"}, {"DEL", "c2", "p-bc-if"}}},
		{"concurrent/ADD(c1:p-eni)||ADD(c2:p-none)", nil, []cniReq{{"ADD", "c1", "p-eni"}, {"ADD", "c2", "p-none"}}},
	}
	if tier == "thorough" {
		scens = append(scens, scen{"concurrent/ADD(c1:p-ab)||ADD(c2:p-args)||DEL(c3:p-json)", []cniReq{{"ADD", "c3", "p-json"}}, []cniReq{{"ADD", "c1", "p-ab"}, {"ADD", "c2", "p-args"}, {"DEL", "c3", "p-json"}}})
	}
	var jobs []Job
	for _, sc := range scens {
		sc := sc
		jobs = append(jobs, Job{Name: sc.name, Weight: 4, Run: func(deadline time.Time) *ScenResult {
			t0 := time.Now()
			h, err := newCNIHarness(daemonConf{Defaults: []string{"a"}, ENI: "c"})
			if err != nil {
				panic(err)
			}
			defer h.close()
			for _, p := range c12Pods {
				h.putPod(p)
			}
			// what each container's plugins receive when its request runs alone after the set-up
			runSetup := func() int {
				h.reset()
				for _, r := range sc.setup {
					h.request(r.Cmd, r.CID, r.Pod, "eth0")
				}
				return len(h.invocations())
			}
			want := map[string][]string{}
			for _, r := range sc.threads {
				n0 := runSetup()
				_, _ = h.g.VerifRequest(h.podRequest(r.Cmd, r.CID, r.Pod))
				for _, inv := range h.invocations()[n0:] {
					want[inv.CID] = append(want[inv.CID], invCanon(inv))
				}
			}
			bounds := map[string]int{"preempt": 1}
			if tier == "thorough" {
				bounds["preempt"] = 2
			}
			e := &coop.Explorer{Bounds: bounds, Deadline: deadline, Name: sc.name}
			res := e.Explore(func(x *coop.Exec) coop.Outcome {
				n0 := runSetup()
				s := coop.NewSched(x)
				for i, r := range sc.threads {
					r := r
					s.Go(fmt.Sprintf("%s-%s#%d", r.Cmd, r.CID, i), func() { _, _ = h.g.VerifRequest(h.podRequest(r.Cmd, r.CID, r.Pod)) })
				}
				s.Run()
				out := coop.Outcome{Trace: s.TraceStrings(), Nontrivial: true}
				got := map[string][]string{}
				var order []string
				for _, inv := range h.invocations()[n0:] {
					got[inv.CID] = append(got[inv.CID], invCanon(inv))
					order = append(order, inv.brief())
				}
				out.StateHash = hashOf(order)
				switch {
				case s.Deadlock:
					out.Err = fmt.Errorf("deadlock")
					out.Signature = "C12|deadlock||concurrent"
				case s.Err != nil:
					out.Err = s.Err
					out.Signature = "C12|error|" + firstLines(s.Err.Error(), 1) + "|concurrent"
				default:
					var cids []string
					for c := range want {
						cids = append(cids, c)
					}
					for c := range got {
						if _, ok := want[c]; !ok {
							cids = append(cids, c)
						}
					}
					sort.Strings(cids)
					for _, c := range cids {
						if strings.Join(got[c], "\n") != strings.Join(want[c], "\n") {
							out.Err = fmt.Errorf("container %q: its plugins received\n  %s\nunder this schedule, but\n  %s\nwhen its request runs alone", c, strings.Join(got[c], "\n  "), strings.Join(want[c], "\n  "))
							out.Signature = "C12|concurrent-request-changes-plugin-input||" + sc.name
							break
						}
					}
				}
				return out
			})
			sr := &ScenResult{Scenario: sc.name, Class: "concurrent", Executions: res.Executions, Diverged: res.Diverged, Exhaustive: res.Exhaustive, Stopped: res.StoppedByLimit,
				Bounds: bounds, MaxPoints: res.MaxPoints, Samples: res.SampleTraces, Violations: res.Violations, WallS: time.Since(t0).Seconds()}
			for hsh := range res.Distinct {
				sr.Distinct = append(sr.Distinct, hsh)
				sr.Nontrivial = append(sr.Nontrivial, hsh)
			}
			return sr
		}})
	}
	return jobs
}

// c12DelAfterPodGoneJob: tear-down does not depend on the pod object: when the pod has been removed from the API server
// between ADD and DEL (force deletion, garbage collection while kubelet was down), DEL invokes exactly what it invokes while the
// pod still exists, succeeds, and a repeated DEL invokes nothing.
func c12DelAfterPodGoneJob() Job {
	name := "del-after-the-pod-object-is-gone"
	return Job{Name: name, Weight: 1, Run: func(deadline time.Time) *ScenResult {
		t0 := time.Now()
		r := newCaseResult()
		for _, conf := range c12Confs[:2] {
			h, err := newCNIHarness(conf)
			if err != nil {
				panic(err)
			}
			for _, p := range c12Pods {
				if p.Name == "p-unknown" {
					continue
				}
				if time.Now().After(deadline) {
					r.exhausted = false
					break
				}
				run := func(gone bool) (codes []int, invs []string) {
					h.reset()
					h.putPod(p)
					c, _ := h.request("ADD", "c1", p.Name, "eth0")
					codes = append(codes, c)
					n0 := len(h.invocations())
					if gone {
						_ = h.kube.Tracker().Delete(corev1.SchemeGroupVersion.WithResource("pods"), "ns", p.Name)
					}
					c, _ = h.request("DEL", "c1", p.Name, "eth0")
					codes = append(codes, c)
					n1 := len(h.invocations())
					c, _ = h.request("DEL", "c1", p.Name, "eth0")
					codes = append(codes, c)
					all := h.invocations()
					for _, inv := range all[n0:n1] {
						invs = append(invs, invCanon(inv))
					}
					if len(all) > n1 {
						invs = append(invs, fmt.Sprintf("repeated DEL invoked %d plugins", len(all)-n1))
					}
					h.putPod(p)
					return
				}
				wantC, wantI := run(false)
				gotC, gotI := run(true)
				r.evals++
				desc := fmt.Sprintf("configuration %v pod %s: ADD, pod object deleted, DEL, DEL", conf, p.Name)
				r.distinct[hashOf(desc, gotC, gotI)] = true
				if fmt.Sprint(wantC) != fmt.Sprint(gotC) || strings.Join(wantI, "\n") != strings.Join(gotI, "\n") {
					r.violate("C12", name, "del", "tear-down-depends-on-the-pod-object", "DEL",
						fmt.Sprintf("%s: HTTP codes %v, plugins\n  %s\nwith the pod object present: HTTP codes %v, plugins\n  %s", desc, gotC, strings.Join(gotI, "\n  "), wantC, strings.Join(wantI, "\n  ")), []string{desc})
				}
			}
			h.close()
		}
		return r.toScen(name, t0, nil)
	}}
}
