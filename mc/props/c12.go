package props

import (
	"encoding/json"
	"fmt"
	"reflect"
	"sort"
	"strings"
	"time"
)

// C12: CNI multi-network ADD/DEL is ordered, paired, rolled back and isolated. Reference model = list manipulation (DESIGN App. C).

var netType = map[string]string{"a": "vp-a", "b": "vp-b", "c": "vp-c", "d": "vp-d"}

var netStatic = map[string]map[string]interface{}{
	"a": {"name": "a", "type": "vp-a", "cniVersion": "0.3.1", "subnet": "10.77.0.0/24"},
	"b": {"name": "b", "type": "vp-b", "cniVersion": "0.3.1", "vlan": float64(7)},
	"c": {"name": "c", "type": "vp-c", "cniVersion": "0.3.1"},
	"d": {"name": "d", "type": "vp-d", "cniVersion": "0.3.1", "mtu": float64(1400)},
}

type netSel struct{ Name, If string }

// modelNets: which networks, in which order, on which interfaces.
func modelNets(conf daemonConf, pod cniPod, kubeletIf string) ([]netSel, bool) {
	var sels []netSel
	ann := strings.TrimSpace(pod.Networks)
	switch {
	case ann == "":
		if pod.WantENI && conf.ENI != "" {
			sels = []netSel{{conf.ENI, ""}}
		} else {
			for _, n := range conf.Defaults {
				sels = append(sels, netSel{n, ""})
			}
		}
	case strings.ContainsAny(ann, "[{\""):
		var l []struct {
			Name      string `json:"name"`
			Interface string `json:"interface"`
		}
		if json.Unmarshal([]byte(ann), &l) != nil {
			return nil, false
		}
		for _, e := range l {
			sels = append(sels, netSel{e.Name, e.Interface})
		}
	default:
		for _, item := range strings.Split(ann, ",") {
			item = strings.TrimSpace(item)
			if i := strings.Index(item, "/"); i >= 0 {
				item = item[i+1:]
			}
			ifn := ""
			if i := strings.Index(item, "@"); i >= 0 {
				ifn = strings.TrimSpace(item[i+1:])
				item = item[:i]
			}
			sels = append(sels, netSel{strings.TrimSpace(item), ifn})
		}
	}
	for i := range sels {
		if _, ok := netType[sels[i].Name]; !ok {
			return nil, false // unknown network: the request fails before anything is invoked
		}
		if i == 0 {
			sels[i].If = kubeletIf
		} else if sels[i].If == "" {
			sels[i].If = fmt.Sprintf("eth%d", i)
		}
	}
	if len(sels) == 0 {
		return nil, false
	}
	return sels, true
}

type expInv struct {
	Cmd, Type, CID, If string
	Prev               string // "" or "<type>.<cid>" whose result must be passed as prevResult
}

type c12Model struct {
	conf  daemonConf
	state map[string][]netSel // container -> saved networks
	fails map[string]bool     // "<type> <cmd> <cid>"
}

func (m *c12Model) fail(typ, cmd, cid string) bool { return m.fails[typ+" "+cmd+" "+cid] }

// del models CmdDel over the saved list from index last down to 0.
func (m *c12Model) del(cid string, last int) (inv []expInv, ok bool, hadState bool) {
	saved, have := m.state[cid]
	if !have {
		return nil, true, false
	}
	delete(m.state, cid)
	if last < 0 || last >= len(saved) {
		last = len(saved) - 1
	}
	var failed []netSel
	for i := last; i >= 0; i-- {
		n := saved[i]
		inv = append(inv, expInv{"DEL", netType[n.Name], cid, n.If, ""})
		if m.fail(netType[n.Name], "DEL", cid) {
			failed = append([]netSel{n}, failed...)
		}
	}
	if len(failed) > 0 {
		m.state[cid] = failed
		return inv, false, true
	}
	return inv, true, true
}

func (m *c12Model) add(cid string, pod cniPod) (inv []expInv, ok bool) {
	nets, valid := modelNets(m.conf, pod, "eth0")
	if !valid {
		return nil, false
	}
	m.state[cid] = nets
	prev := ""
	for i, n := range nets {
		inv = append(inv, expInv{"ADD", netType[n.Name], cid, n.If, prev})
		if m.fail(netType[n.Name], "ADD", cid) {
			di, _, _ := m.del(cid, i)
			return append(inv, di...), false
		}
		prev = netType[n.Name] + "." + cid
	}
	return inv, true
}

type cniReq struct {
	Cmd string
	CID string
	Pod string
}

// checkRequest compares one request's observed invocations / status / state file with the model.
func c12Compare(h *cniHarness, desc string, req cniReq, pod cniPod, exp []expInv, expOK bool, got []Invocation, code int, expState []netSel) (string, string) {
	if (code == 200) != expOK {
		return "http-outcome-differs-from-model", fmt.Sprintf("%s: request %v answered HTTP %d, model says success=%v", desc, req, code, expOK)
	}
	var gb, eb []string
	for _, g := range got {
		gb = append(gb, fmt.Sprintf("%s %s %s %s", g.Cmd, g.Type, g.CID, g.If))
	}
	for _, e := range exp {
		eb = append(eb, fmt.Sprintf("%s %s %s %s", e.Cmd, e.Type, e.CID, e.If))
	}
	if fmt.Sprint(gb) != fmt.Sprint(eb) {
		return "invocation-sequence-differs-from-model", fmt.Sprintf("%s: request %v invoked %v, model %v", desc, req, gb, eb)
	}
	// arguments and stdin
	wantArgs := map[string]string{"IgnoreUnknown": "1", "K8S_POD_NAMESPACE": "ns", "K8S_POD_NAME": req.Pod, "K8S_POD_INFRA_CONTAINER_ID": req.CID}
	if pod.ExtendedArg != "" && req.Cmd == "ADD" {
		var a struct {
			Common map[string]json.RawMessage `json:"common"`
		}
		if json.Unmarshal([]byte(pod.ExtendedArg), &a) == nil {
			for k, v := range a.Common {
				wantArgs[k] = string(v)
			}
		}
	}
	for i, g := range got {
		e := exp[i]
		if g.Cmd == "ADD" || pod.ExtendedArg == "" {
			if !reflect.DeepEqual(g.Args, wantArgs) && g.Cmd == "ADD" {
				return "plugin-args-differ-from-model", fmt.Sprintf("%s: %s got CNI_ARGS %v, model %v", desc, g.brief(), g.Args, wantArgs)
			}
		}
		for k, v := range map[string]string{"IgnoreUnknown": "1", "K8S_POD_NAMESPACE": "ns", "K8S_POD_NAME": req.Pod, "K8S_POD_INFRA_CONTAINER_ID": req.CID} {
			if g.Args[k] != v {
				return "kubelet-args-lost", fmt.Sprintf("%s: %s got CNI_ARGS %v", desc, g.brief(), g.Args)
			}
		}
		var net string
		for n, t := range netType {
			if t == e.Type {
				net = n
			}
		}
		want := map[string]interface{}{}
		for k, v := range netStatic[net] {
			want[k] = v
		}
		gotConf := map[string]interface{}{}
		var gotPrev string
		for k, v := range g.Stdin {
			if k == "prevResult" {
				if mm, ok := v.(map[string]interface{}); ok {
					if dns, ok := mm["dns"].(map[string]interface{}); ok {
						gotPrev = strings.ReplaceAll(fmt.Sprint(dns["domain"]), h.cidPfx, "")
					} else {
						gotPrev = "<no dns>"
					}
				}
				continue
			}
			gotConf[k] = v
		}
		if !reflect.DeepEqual(gotConf, want) {
			return "plugin-stdin-differs-from-static-configuration", fmt.Sprintf("%s: %s got %v, static configuration %v", desc, g.brief(), gotConf, want)
		}
		if gotPrev != e.Prev {
			return "prevResult-differs-from-model", fmt.Sprintf("%s: %s carries prevResult of %q, model says %q", desc, g.brief(), gotPrev, e.Prev)
		}
	}
	// state file
	gs := h.stateNetworks(req.CID)
	var es []string
	for _, n := range expState {
		es = append(es, n.Name)
	}
	if expState == nil {
		es = nil
	}
	if fmt.Sprint(gs) != fmt.Sprint(es) && !(len(gs) == 0 && len(es) == 0 && (gs == nil) == (es == nil)) {
		if !(gs == nil && es == nil) {
			return "state-file-differs-from-model", fmt.Sprintf("%s: after %v the state file lists %v, model %v", desc, req, gs, es)
		}
	}
	return "", ""
}

var c12Pods = []cniPod{
	{Name: "p-none"},
	{Name: "p-a", Networks: "a"},
	{Name: "p-ab", Networks: "a,b"},
	{Name: "p-bc-if", Networks: "b@n1,c"},
	{Name: "p-ns-a-b", Networks: "ns/a@x,b"},
	{Name: "p-json", Networks: `[{"name":"a"},{"name":"b","interface":"n2"},{"name":"c"}]`},
	{Name: "p-json-noif", Networks: `[{"name":"c"},{"name":"a"}]`},
	{Name: "p-eni", WantENI: true},
	{Name: "p-eni-ann", WantENI: true, Networks: "b"},
	{Name: "p-file", Networks: "d,a"},
	{Name: "p-afile", Networks: "a,d"}, // the file-only network is not the first one
	{Name: "p-d", Networks: "d"},
	{Name: "p-aa", Networks: "a,a"},
	{Name: "p-unknown", Networks: "a,zz"},
	{Name: "p-args", Networks: "a,b", ExtendedArg: `{"common":{"ipinfos":[{"ip":"10.1.2.3/24","vlan":2,"gateway":"10.1.2.1"}],"x":"y"}}`},
	// extended args with another key set (what one pod's annotation carries must not show up in another pod's arguments)
	{Name: "p-args2", Networks: "a,b", ExtendedArg: `{"common":{"z":"1"}}`},
}

var c12Confs = []daemonConf{{[]string{"a"}, ""}, {[]string{"a", "b"}, ""}, {[]string{"a"}, "c"}, {[]string{"b", "a"}, "c"}}

func podByName(n string) cniPod {
	for _, p := range c12Pods {
		if p.Name == n {
			return p
		}
	}
	return cniPod{Name: n}
}

// runHistory executes a request history on the daemon and compares each step with the model.
func c12RunHistory(r *caseResult, scen string, h *cniHarness, conf daemonConf, hist []cniReq, fails []string) {
	h.reset()
	h.setFailures(prefixFails(h, fails))
	m := &c12Model{conf: conf, state: map[string][]netSel{}, fails: map[string]bool{}}
	for _, f := range fails {
		m.fails[f] = true
	}
	desc := fmt.Sprintf("daemon{default=%v eni=%q} failures=%v history=%v", conf.Defaults, conf.ENI, fails, hist)
	seen := 0
	for _, req := range hist {
		pod := podByName(req.Pod)
		code, _ := h.request(req.Cmd, req.CID, req.Pod, "eth0")
		all := h.invocations()
		got := all[seen:]
		seen = len(all)
		var exp []expInv
		var ok bool
		if req.Cmd == "ADD" {
			exp, ok = m.add(req.CID, pod)
		} else {
			exp, ok, _ = m.del(req.CID, -1)
		}
		r.evals++
		st, have := m.state[req.CID]
		if !have {
			st = nil
		}
		if clause, detail := c12Compare(h, desc, req, pod, exp, ok, got, code, st); clause != "" {
			class := "sequential"
			r.violate("C12", scen, class, clause, req.Cmd, detail, []string{desc})
			return
		}
	}
	var outcome []string
	for _, i := range h.invocations() {
		outcome = append(outcome, i.brief())
	}
	r.distinct[hashOf(conf, fails, hist, outcome)] = true
	if len(r.samples) < 3 && len(r.distinct)%53 == 7 {
		r.samples = append(r.samples, desc+" => "+strings.Join(outcome, "; "))
	}
}

func prefixFails(h *cniHarness, fails []string) []string {
	var out []string
	for _, f := range fails {
		p := strings.Fields(f)
		out = append(out, fmt.Sprintf("%s %s %s%s fail", p[0], p[1], h.cidPfx, p[2]))
	}
	return out
}

func subsets(items []string, max int) [][]string {
	out := [][]string{{}}
	var rec func(start int, cur []string)
	rec = func(start int, cur []string) {
		for i := start; i < len(items); i++ {
			n := append(append([]string{}, cur...), items[i])
			out = append(out, n)
			if len(n) < max {
				rec(i+1, n)
			}
		}
	}
	rec(0, nil)
	return out
}

func c12SingleJob(shard, nshards int) Job {
	name := fmt.Sprintf("single-container/shard%d", shard)
	return Job{Name: name, Weight: 3, Run: func(deadline time.Time) *ScenResult {
		t0 := time.Now()
		r := newCaseResult()
		n := 0
		for _, conf := range c12Confs {
			h, err := newCNIHarness(conf)
			if err != nil {
				panic(err)
			}
			for _, p := range c12Pods {
				h.putPod(p)
			}
			for _, p := range c12Pods {
				nets, _ := modelNets(conf, p, "eth0")
				types := map[string]bool{}
				for _, s := range nets {
					types[netType[s.Name]] = true
				}
				var atoms []string
				var tl []string
				for t := range types {
					tl = append(tl, t)
				}
				sort.Strings(tl)
				for _, t := range tl {
					atoms = append(atoms, t+" ADD c1", t+" DEL c1")
				}
				for _, fails := range subsets(atoms, 4) {
					n++
					if n%nshards != shard {
						continue
					}
					if time.Now().After(deadline) {
						r.exhausted = false
						h.close()
						return r.toScen(name, t0, nil)
					}
					// ADD, DEL (with the failure pattern), then the pattern is lifted: DEL retries exactly the failed ones, DEL again is a no-op
					hist := []cniReq{{"ADD", "c1", p.Name}, {"DEL", "c1", p.Name}}
					c12RunHistory(r, name, h, conf, hist, fails)
					if len(fails) > 0 {
						c12Retry(r, name, h, conf, p, fails)
					}
				}
			}
			h.close()
		}
		return r.toScen(name, t0, map[string]int{"confs": len(c12Confs), "pods": len(c12Pods)})
	}}
}

// c12Retry: run ADD; DEL under the failure pattern, lift the failures, then DEL; DEL.
func c12Retry(r *caseResult, scen string, h *cniHarness, conf daemonConf, p cniPod, fails []string) {
	h.reset()
	h.setFailures(prefixFails(h, fails))
	m := &c12Model{conf: conf, state: map[string][]netSel{}, fails: map[string]bool{}}
	for _, f := range fails {
		m.fails[f] = true
	}
	desc := fmt.Sprintf("daemon{default=%v eni=%q} failures=%v (lifted before the last two DELs) history=[ADD c1 %s; DEL c1; DEL c1; DEL c1]", conf.Defaults, conf.ENI, fails, p.Name)
	seen := 0
	step := func(req cniReq) bool {
		code, _ := h.request(req.Cmd, req.CID, req.Pod, "eth0")
		all := h.invocations()
		got := all[seen:]
		seen = len(all)
		var exp []expInv
		var ok bool
		if req.Cmd == "ADD" {
			exp, ok = m.add(req.CID, p)
		} else {
			exp, ok, _ = m.del(req.CID, -1)
		}
		r.evals++
		st, have := m.state[req.CID]
		if !have {
			st = nil
		}
		if clause, detail := c12Compare(h, desc, req, p, exp, ok, got, code, st); clause != "" {
			r.violate("C12", scen, "retry", clause, req.Cmd, detail, []string{desc})
			return false
		}
		return true
	}
	if !step(cniReq{"ADD", "c1", p.Name}) || !step(cniReq{"DEL", "c1", p.Name}) {
		return
	}
	h.setFailures(nil)
	m.fails = map[string]bool{}
	if !step(cniReq{"DEL", "c1", p.Name}) {
		return
	}
	step(cniReq{"DEL", "c1", p.Name})
}

func c12PairJob(shard, nshards, maxLen int) Job {
	name := fmt.Sprintf("two-containers/shard%d", shard)
	return Job{Name: name, Weight: 3, Run: func(deadline time.Time) *ScenResult {
		t0 := time.Now()
		r := newCaseResult()
		small := []string{"p-ab", "p-bc-if", "p-none", "p-args", "p-args2"}
		n := 0
		for _, conf := range c12Confs[:2] {
			h, err := newCNIHarness(conf)
			if err != nil {
				panic(err)
			}
			for _, p := range c12Pods {
				h.putPod(p)
			}
			for _, p1 := range small {
				for _, p2 := range small {
					alphabet := []cniReq{{"ADD", "c1", p1}, {"DEL", "c1", p1}, {"ADD", "c2", p2}, {"DEL", "c2", p2}}
					var hists [][]cniReq
					var rec func(cur []cniReq)
					rec = func(cur []cniReq) {
						if len(cur) >= 2 {
							hists = append(hists, append([]cniReq{}, cur...))
						}
						if len(cur) == maxLen {
							return
						}
						for _, a := range alphabet {
							rec(append(cur, a))
						}
					}
					rec(nil)
					for _, hist := range hists {
						for _, fails := range [][]string{{}, {"vp-b ADD c1"}, {"vp-b DEL c1", "vp-a DEL c2"}} {
							n++
							if n%nshards != shard {
								continue
							}
							if time.Now().After(deadline) {
								r.exhausted = false
								h.close()
								return r.toScen(name, t0, nil)
							}
							c12RunHistory(r, name, h, conf, hist, fails)
						}
					}
				}
			}
			h.close()
		}
		return r.toScen(name, t0, map[string]int{"max_requests": maxLen})
	}}
}

// c12FreshJob: histories on a daemon that has just started (nothing loaded or cached yet): every ordered pair of pods from a
// menu that uses the file-only network in every position.
func c12FreshJob() Job {
	name := "fresh-daemon/pairs"
	return Job{Name: name, Weight: 2, Run: func(deadline time.Time) *ScenResult {
		t0 := time.Now()
		r := newCaseResult()
		menu := []string{"p-afile", "p-d", "p-file", "p-ab", "p-none"}
		for _, conf := range c12Confs[:2] {
			for _, p1 := range menu {
				for _, p2 := range menu {
					if time.Now().After(deadline) {
						r.exhausted = false
						return r.toScen(name, t0, nil)
					}
					h, err := newCNIHarness(conf)
					if err != nil {
						panic(err)
					}
					for _, p := range c12Pods {
						h.putPod(p)
					}
					hist := []cniReq{{"ADD", "c1", p1}, {"ADD", "c2", p2}, {"DEL", "c2", p2}, {"DEL", "c1", p1}}
					c12RunHistory(r, name, h, conf, hist, nil)
					h.close()
				}
			}
		}
		return r.toScen(name, t0, map[string]int{"pods": len(menu)})
	}}
}

func init() {
	register(&Property{ID: "C12", Level: "fault_enumeration", QuickS: 150, ThoroughS: 900,
		Assume: []string{"a real galaxy.Galaxy object (Init from a JSON configuration, fake clientset) driven through its /cni HTTP handler in the harness process; plugins are recording shell scripts found via the daemon's CNI paths",
			"networks a,b,c in the JSON configuration, d only as a file in network-conf-dir; 4 daemon configurations (default networks, ENI network); 13 pod shapes (no annotation, comma and JSON forms, interfaces, ENI request, duplicate network, unknown network, extended args)",
			"concurrent requests are covered by C19's scenarios, not here"},
		Rule: "(1) every daemon configuration x pod x failure pattern (every subset of <=4 of {ADD,DEL} x the pod's plugin types failing) on ADD;DEL, and the same with the failures lifted followed by two more DELs; (2) every history of 2..N requests over two containers " +
			"(ADD/DEL for each) for 25 pod pairs x 3 failure patterns, and ADD;ADD;DEL;DEL for 25 pod pairs on a freshly started daemon each; each request's plugin invocations (command, type, container, interface, parsed CNI_ARGS, stdin incl. prevResult), HTTP outcome and state file are compared with the list-manipulation model; " +
			"(3) requests for different containers as threads of the cooperative scheduler (points: plugin invocations, state files, locks, process-environment accesses; bounded preemptions): under every schedule each container's plugins receive what they receive when the request runs alone; " +
			"distinct/non-trivial = distinct (configuration, failures, history, invocation sequence)",
		Jobs: func(tier string) []Job {
			maxLen := 3
			if tier == "thorough" {
				maxLen = 4
			}
			var jobs []Job
			for s := 0; s < 8; s++ {
				jobs = append(jobs, c12SingleJob(s, 8), c12PairJob(s, 8, maxLen))
			}
			jobs = append(jobs, c12ConcurrentJobs(tier)...)
			jobs = append(jobs, c12DelAfterPodGoneJob())
			return append(jobs, c12FreshJob())
		}})
	replayers["C12"] = replayDescOnly
}
