package props

import (
	"fmt"
	"sort"
	"strings"
	"time"

	"k8s.io/client-go/kubernetes"
	kubefake "k8s.io/client-go/kubernetes/fake"

	"verif.local/mc/nfsim"
)

var embeddedKube = kubefake.NewSimpleClientset()

func embedKubeClient() kubernetes.Interface { return embeddedKube }

// C15: network-policy sync converges, is idempotent, leaves foreign rules alone, never submits a dangling batch.

type c15State struct {
	Name string
	C    pwCluster
	Pods []string
}

func c15States(tier string) []c15State {
	podSets := [][]string{{"web", "db", "cli2"}, {"web", "db"}, {"web-new", "db", "cli2"}, {"web", "db-plain", "cli2"}, {}, {"web", "db-noip"}, {"web", "db", "bare"}}
	pols := []string{"in-podsel", "in-ipblock", "eg-podsel-port", "in-two-peers", "both", "in-denyall"}
	if tier == "thorough" {
		podSets = append(podSets, []string{"web", "db", "cli2-off"}, []string{"web", "db", "cli2", "noip"})
		pols = append(pols, "in-nssel-port", "eg-ipblock", "in-two-rules", "in-ns2", "in-ns-and-pod", "eg-implicit")
	}
	var polSets [][]string
	polSets = append(polSets, []string{})
	for i := range pols {
		polSets = append(polSets, []string{pols[i]})
		for j := i + 1; j < len(pols); j++ {
			polSets = append(polSets, []string{pols[i], pols[j]})
		}
	}
	var out []c15State
	for _, ps := range podSets {
		for _, pl := range polSets {
			out = append(out, c15State{Name: fmt.Sprintf("pods=%v policies=%v", ps, pl), C: mkCluster(ps, pl), Pods: ps})
		}
	}
	// two pods of one name in namespaces ns1 and ns12 (what identifies a pod's rules must not be a prefix of another pod's)
	for _, pl := range [][]string{{}, {"in-ns12"}, {"in-ns12", "in-podsel"}} {
		ps := []string{"web", "db", "web12"}
		out = append(out, c15State{Name: fmt.Sprintf("pods=%v policies=%v", ps, pl), C: mkCluster(ps, pl), Pods: ps})
	}
	return out
}

func benignPolicyReject(r string) bool {
	switch {
	case strings.Contains(r, " -C "):
		return true
	case strings.Contains(r, " -N ") && strings.Contains(r, "Chain already exists"):
		return true
	case (strings.Contains(r, " -F GLX-POD-") || strings.Contains(r, " -S GLX-INGRESS") || strings.Contains(r, " -S GLX-EGRESS")) && strings.Contains(r, "No chain/target/match"):
		return true // deletePodChains probes chains that may not exist and handles exactly this answer
	}
	return false
}

// scaffoldingFree drops the empty GLX-INGRESS/GLX-EGRESS chains and the hook rules into them: they are created on demand and
// deliberately kept; they carry no policy.
func scaffoldingFree(s glxState) glxState {
	out := glxState{Chains: map[string][]string{}, Sets: s.Sets, Foreign: s.Foreign}
	for n, r := range s.Chains {
		if (n == "GLX-INGRESS" || n == "GLX-EGRESS") && len(r) == 0 {
			continue
		}
		out.Chains[n] = r
	}
	return out
}

type c15Diff struct {
	staleReferencedPolicyChains []string
	stalePodChainsOfGonePods    []string
	staleJumpsOfFormerIPs       []string
	other                       []string
}

func c15Compare(got, want glxState, livePodChains, currentIPs map[string]bool) c15Diff {
	var d c15Diff
	got, want = scaffoldingFree(got), scaffoldingFree(want)
	explainedChains := map[string]bool{}
	for n := range got.Chains {
		if _, ok := want.Chains[n]; !ok && strings.HasPrefix(n, "GLX-POD-") && !livePodChains[n] {
			d.stalePodChainsOfGonePods = append(d.stalePodChainsOfGonePods, n)
			explainedChains[n] = true
		}
	}
	for n := range got.Chains {
		if _, ok := want.Chains[n]; ok || explainedChains[n] || n == "GLX-INGRESS" || n == "GLX-EGRESS" {
			continue
		}
		if strings.HasPrefix(n, "GLX-PLCY-") {
			// who still jumps to it?
			byGone, byLive := 0, 0
			for c, rules := range got.Chains {
				for _, r := range rules {
					if strings.HasSuffix(r, "-j "+n) {
						if explainedChains[c] {
							byGone++
						} else {
							byLive++
						}
					}
				}
			}
			if byLive == 0 && byGone > 0 {
				explainedChains[n] = true // kept alive only by the chain of a vanished pod: a consequence of that finding
				continue
			}
			if byLive > 0 {
				d.staleReferencedPolicyChains = append(d.staleReferencedPolicyChains, n)
				explainedChains[n] = true
				continue
			}
		}
		d.other = append(d.other, "unexpected chain "+n+": "+strings.Join(got.Chains[n], " | "))
	}
	// sets only referenced from an explained stale policy chain, and jump rules to explained stale pod chains, are consequences
	explainedSets := map[string]bool{}
	for n := range explainedChains {
		for _, r := range got.Chains[n] {
			f := strings.Fields(r)
			for i, t := range f {
				if t == "--match-set" && i+1 < len(f) {
					explainedSets[f[i+1]] = true
				}
			}
		}
	}
	for n, rules := range want.Chains {
		g, ok := got.Chains[n]
		if !ok {
			d.other = append(d.other, "missing chain "+n)
			continue
		}
		if n == "GLX-INGRESS" || n == "GLX-EGRESS" {
			g = d.classifyJumps(g, rules, explainedChains, livePodChains, currentIPs)
		}
		if strings.Join(g, "\n") != strings.Join(rules, "\n") {
			d.other = append(d.other, fmt.Sprintf("chain %s differs:\n      got  %s\n      want %s", n, strings.Join(g, " | "), strings.Join(rules, " | ")))
		}
	}
	for _, n := range []string{"GLX-INGRESS", "GLX-EGRESS"} {
		if _, ok := want.Chains[n]; ok {
			continue
		}
		for _, r := range d.classifyJumps(got.Chains[n], nil, explainedChains, livePodChains, currentIPs) {
			d.other = append(d.other, "unexpected rule "+r)
		}
	}
	for n, e := range got.Sets {
		w, ok := want.Sets[n]
		if !ok {
			if !explainedSets[n] {
				d.other = append(d.other, "unexpected ipset "+n+" "+strings.Join(e, ","))
			}
			continue
		}
		if strings.Join(e, ",") != strings.Join(w, ",") {
			d.other = append(d.other, fmt.Sprintf("ipset %s has %v, want %v", n, e, w))
		}
	}
	for n := range want.Sets {
		if _, ok := got.Sets[n]; !ok {
			d.other = append(d.other, "missing ipset "+n)
		}
	}
	sort.Strings(d.other)
	return d
}

// classifyJumps removes from got the per-pod jump rules that are explained by a known cause and returns the rest:
//   - jumps to the chain of a vanished pod (consequence of the stale pod chain)
//   - jumps to the chain of a live pod carrying an address that is not the pod's current one (the pod was re-created with a
//     new IP while galaxy was not watching; only the delete event handler removes such a rule)
func (d *c15Diff) classifyJumps(got, want []string, explainedChains, livePodChains, currentIPs map[string]bool) []string {
	wanted := map[string]bool{}
	wantTargets := map[string]bool{}
	for _, r := range want {
		wanted[r] = true
		f := strings.Fields(r)
		wantTargets[f[len(f)-1]] = true
		_ = wantTargets
	}
	var rest []string
	for _, r := range got {
		if wanted[r] {
			rest = append(rest, r)
			continue
		}
		f := strings.Fields(r)
		target := f[len(f)-1]
		switch {
		case explainedChains[target]:
		case livePodChains[target] && len(f) > 3 && !currentIPs[strings.TrimSuffix(f[3], "/32")]:
			d.staleJumpsOfFormerIPs = append(d.staleJumpsOfFormerIPs, r)
		default:
			rest = append(rest, r)
		}
	}
	return rest
}

func podChainsOf(k *nfsim.Kernel, c pwCluster) (referenced map[string]bool) {
	referenced = map[string]bool{}
	st := glxOf(k)
	for n, rules := range st.Chains {
		if !strings.HasPrefix(n, "GLX-POD-") {
			continue
		}
		for _, r := range rules {
			f := strings.Fields(r)
			if len(f) > 0 && strings.HasPrefix(f[len(f)-1], "GLX-PLCY-") {
				referenced[f[len(f)-1]] = true
			}
		}
	}
	return referenced
}

// livePodChainNames computes the chain names of the pods of c that live on this node (differentially: sync them alone with a
// deny-all policy in each namespace on an empty kernel and read the chain names).
func livePodChainNames(c pwCluster) map[string]bool {
	k := nfsim.New()
	w := newPolicyWorld(k)
	cc := pwCluster{Pods: append([]pwPod{}, c.Pods...)}
	menu := policyMenu()
	cc.Policies = append(cc.Policies, menu["in-denyall"], np("ns2", "deny2", sel(), tIn, nil, nil))
	for i := range cc.Pods {
		if cc.Pods[i].IP == "" {
			cc.Pods[i].IP = "10.99.0.1"
		}
	}
	w.setCluster(cc)
	w.pm.Run()
	out := map[string]bool{}
	for n := range glxOf(k).Chains {
		if strings.HasPrefix(n, "GLX-POD-") {
			out[n] = true
		}
	}
	return out
}

func c15Job(shard, nshards int, tier string) Job {
	name := fmt.Sprintf("sync-pairs/shard%d", shard)
	return Job{Name: name, Weight: 3, Run: func(deadline time.Time) *ScenResult {
		t0 := time.Now()
		r := newCaseResult()
		states := c15States(tier)
		refs := map[int]glxState{}
		ref := func(i int) glxState {
			if s, ok := refs[i]; ok {
				return s
			}
			k := nfsim.New()
			w := newPolicyWorld(k)
			w.setCluster(states[i].C)
			w.pm.Run()
			refs[i] = glxOf(k)
			return refs[i]
		}
		liveNames := map[int]map[string]bool{}
		n := 0
		transitions := 0
		for bi := range states {
			for ai := range states {
				for _, prior := range []string{"empty", "foreign", "stale"} {
					for _, mode := range []string{"same-manager", "restart"} {
						n++
						if n%nshards != shard {
							continue
						}
						if prior != "empty" && mode == "restart" && tier != "thorough" {
							continue
						}
						if time.Now().After(deadline) {
							r.exhausted = false
							sr := r.toScen(name, t0, map[string]int{"states": len(states)})
							sr.States, sr.Transitions, sr.MaxDepth = len(r.distinct), transitions, 3
							return sr
						}
						if _, ok := liveNames[ai]; !ok {
							liveNames[ai] = livePodChainNames(states[ai].C)
						}
						k := nfsim.New()
						seedFilter(k, prior)
						foreign0 := glxOf(k).Foreign
						w := newPolicyWorld(k)
						w.setCluster(states[bi].C)
						w.pm.Run()
						if mode == "restart" {
							w.newManager()
							if len(states[ai].C.Policies) == 0 {
								// a daemon that starts while no policy exists has not started its pod informer
								w.newManagerNotStarted(states[ai].C)
							}
						}
						w.setCluster(states[ai].C)
						k.Cmds, k.Rejected = nil, nil
						w.pm.Run()
						transitions += 3
						r.evals++
						s1 := glxOf(k)
						rej := append([]string{}, k.Rejected...)
						desc := fmt.Sprintf("kernel=%s manager=%s\n    before: %s\n    after:  %s", prior, mode, states[bi].Name, states[ai].Name)
						r.distinct[hashOf(bi, ai, prior, mode, s1.String())] = true
						if len(r.samples) < 3 && r.evals%229 == 1 {
							r.samples = append(r.samples, desc)
						}
						class := prior + "/" + mode
						if s1.Foreign != foreign0 {
							r.violate("C15", name, class, "foreign-objects-modified", "Run", desc, []string{desc})
						}
						staleBusy := false
						for _, x := range rej {
							if benignPolicyReject(x) {
								continue
							}
							if strings.Contains(x, "ipset destroy") && strings.Contains(x, "in use") {
								continue // galaxy tries to destroy every unknown GLX set and deliberately ignores "in use"; convergence is checked on the state
							}
							if strings.Contains(x, "CHAIN_USER_DEL failed") {
								staleBusy = true
								continue
							}
							r.violate("C15", name, class, "kernel-rejected-a-batch", rejectKind(x), fmt.Sprintf("%s\n    %s", desc, x), []string{desc})
						}
						// independent of any second run of the implementation: a pod on the node that has an IP owns a pod chain iff some
						// policy of its namespace selects it (API selector semantics)
						for _, p := range states[ai].C.Pods {
							if !p.OnNode || p.IP == "" {
								continue
							}
							selected := false
							for _, np := range states[ai].C.Policies {
								if np.Namespace == p.NS && selMatches(&np.Spec.PodSelector, p.Labels) {
									selected = true
								}
							}
							has := false
							for cn, rules := range s1.Chains {
								if strings.HasPrefix(cn, "GLX-POD-") && strings.Contains(strings.Join(rules, "\n"), "--comment "+p.Name+"_"+p.NS+" ") {
									has = true
								}
							}
							if selected != has {
								r.violate("C15", name, class, "pod-chain-presence-differs-from-policy-selection", "Run", fmt.Sprintf("%s\n    pod %s/%s labels %v: selected by a policy of its namespace: %v, pod chain present: %v", desc, p.NS, p.Name, p.Labels, selected, has), []string{desc})
							}
						}
						want := ref(ai)
						// the stale objects seeded into the kernel count as "referenced before" / "gone pods"
						ips := map[string]bool{}
						for _, p := range states[ai].C.Pods {
							ips[p.IP] = true
						}
						d := c15Compare(s1, want, liveNames[ai], ips)
						if len(d.other) > 0 {
							r.violate("C15", name, class, "state-after-sync-differs-from-fresh-sync", "Run", fmt.Sprintf("%s\n    %s", desc, strings.Join(d.other, "\n    ")), []string{desc})
						}
						if len(d.staleReferencedPolicyChains) > 0 || staleBusy {
							r.violate("C15", name, "", "stale-policy-chain-survives-one-sync", "Run:-X-of-referenced-chain", fmt.Sprintf("%s\n    policy chains %v were still referenced by pod chains when the sync tried to delete them (busy: %v)", desc, d.staleReferencedPolicyChains, staleBusy), []string{desc})
						}
						if len(d.staleJumpsOfFormerIPs) > 0 {
							r.violate("C15", name, "", "jump-rule-of-former-pod-ip-never-removed", "Run", fmt.Sprintf("%s\n    %v", desc, d.staleJumpsOfFormerIPs), []string{desc})
						}
						if len(d.stalePodChainsOfGonePods) > 0 {
							r.violate("C15", name, "", "pod-chain-of-vanished-pod-never-removed", "Run", fmt.Sprintf("%s\n    %v", desc, d.stalePodChainsOfGonePods), []string{desc})
						}
						// idempotence (only meaningful once converged)
						if len(d.other) == 0 && len(d.staleReferencedPolicyChains) == 0 && !staleBusy {
							k.Cmds, k.Rejected = nil, nil
							w.pm.Run()
							s2 := glxOf(k)
							if s2.String() != s1.String() || s2.Foreign != s1.Foreign {
								r.violate("C15", name, class, "second-sync-changes-state", "Run", fmt.Sprintf("%s\n  first:\n%s  second:\n%s", desc, s1.String(), s2.String()), []string{desc})
							}
						}
					}
				}
			}
		}
		sr := r.toScen(name, t0, map[string]int{"states": len(states)})
		sr.States, sr.Transitions, sr.MaxDepth = len(r.distinct), transitions, 3
		return sr
	}}
}

func rejectKind(x string) string {
	switch {
	case strings.Contains(x, "iptables-restore"):
		if strings.Contains(x, "No chain/target/match") || strings.Contains(x, "Couldn't load target") {
			return "restore:missing-chain"
		}
		if strings.Contains(x, "doesn't exist") {
			return "restore:missing-set"
		}
		return "restore:other"
	case strings.HasPrefix(x, "ipset"):
		return "ipset"
	}
	return "iptables"
}

func init() {
	register(&Property{ID: "C15", Level: "model_checking", QuickS: 120, ThoroughS: 1200,
		Assume: []string{"netfilter is the exec-level simulator mc/nfsim; the repository's iptables/ipset runners run on top of it; the per-pod goroutines of syncPods run freely, their only order-dependent residue (order of jump rules in GLX-INGRESS/EGRESS) is canonicalised",
			"cluster states from a menu: 5 (thorough 7) pod sets x all sets of <=2 policies out of 6 (thorough 12) shapes; prior kernels: empty, foreign chains+sets, stale galaxy objects; same manager or restarted manager"},
		Rule: "all ordered pairs (before, after) of cluster states: sync `before`, switch the listers to `after`, run one full sync; compare the galaxy-owned kernel state with a fresh sync of `after` on an empty kernel (differential), " +
			"check foreign objects byte for byte, every command the kernel refused, and that a second sync changes nothing; the event sequences between the two states in every order, and round trips A -> B -> A on one manager (at most two events each way, every order) compared with a fresh sync of A; a sync with its k-th ipset/iptables command failing (every k) followed by the next sync must converge as well; states = distinct resulting kernel states, transitions = full syncs executed",
		Jobs: func(tier string) []Job {
			var jobs []Job
			for s := 0; s < 16; s++ {
				jobs = append(jobs, c15Job(s, 16, tier))
			}
			for s := 0; s < 8; s++ {
				jobs = append(jobs, c15EventJob(s, 8, tier))
				jobs = append(jobs, c15FaultJob(s, 8, tier))
				jobs = append(jobs, c15RoundTripJob(s, 8, tier))
			}
			return jobs
		}})
	replayers["C15"] = replayDescOnly
}
