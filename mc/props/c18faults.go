package props

import (
	"fmt"
	"time"

	"verif.local/mc/coop"
	"verif.local/mc/world"
)

// C18, error paths: "do not keep a lock held". Every operation of every short history (BFS over the lifecycle alphabet,
// per workload class, from states with bound and with reserved IPs, incl. a sized Pool) is run again with its k-th
// API-server call failing, for every k; afterwards the same instance must still answer: a Filter for every pod, the
// handling of the pending events, a resync and a pool request, each under a watchdog.

func c18FaultProbeSystems() []*HistSys {
	ops := map[string]bool{"create": true, "sched": true, "delete": true, "finish": true, "deliver": true, "resync": true, "scale": true, "apirelease": true}
	bound := []Op{{Kind: "create", A: 0}, {Kind: "sched", A: 0}, {Kind: "create", A: 1}, {Kind: "sched", A: 1}}
	oneDeleted := append(append([]Op{}, bound...), Op{Kind: "delete", A: 0}, Op{Kind: "deliver", A: 0})
	var out []*HistSys
	for _, c := range []wkClass{{"sts", "immutable"}, {"dp", ""}, {"dp", "immutable"}, {"dp", "never"}, {"dppool", ""}, {"dppool", "never"}, {"bare", "never"}, {"stsmulti", ""}} {
		out = append(out, &HistSys{Class: c, Cfg: cfgTwoPools(false), NPods: 2, Replicas: 2, Ops: ops, PrefixName: "allbound", Prefix: bound})
		out = append(out, &HistSys{Class: c, Cfg: cfgTwoPools(false), NPods: 2, Replicas: 2, Ops: ops, PrefixName: "onedeleted", Prefix: oneDeleted})
		if c.Kind == "dppool" {
			out = append(out, &HistSys{Class: c, Cfg: cfgTwoPools(false), NPods: 2, Replicas: 2, Ops: ops, PoolSize: 2, PrefixName: "sizedpool-onedeleted", Prefix: oneDeleted})
		}
	}
	// the pod-IP sync path: the store is lost, galaxy-ipam restarted, and the IPs of running pods are adopted again (notification
	// of a pod turning Running, periodic sync)
	opsSync := map[string]bool{"create": true, "sched": true, "delete": true, "deliver": true, "resync": true, "run": true, "storeloss": true, "syncpodips": true}
	for _, c := range []wkClass{{"sts", "immutable"}, {"bare", "never"}} {
		out = append(out, &HistSys{Class: c, Cfg: cfgTwoPools(false), NPods: 2, Replicas: 2, Ops: opsSync, PrefixName: "syncpath",
			Prefix: []Op{{Kind: "create", A: 0}, {Kind: "sched", A: 0}}})
	}
	return out
}

func c18FaultProbeJob(h *HistSys, depth int) Job {
	name := "fault-then-probe/" + h.Class.String() + "@" + h.PrefixName
	return Job{Name: name, Weight: 2, Run: func(deadline time.Time) *ScenResult {
		t0 := time.Now()
		evals, hangs := 0, 0
		distinct := map[string]bool{}
		var viols []coop.Violation
		sigSeen := map[string]bool{}
		report := func(hist []Op, k int, failed, clause, detail string) {
			desc := fmt.Sprintf("%s with API call %d (%s) failing", histString(hist), k, failed)
			sig := "C18|" + clause + "|" + hist[len(hist)-1].Kind + ":" + failed + "|" + h.Class.String()
			if sigSeen[sig] {
				return
			}
			sigSeen[sig] = true
			viols = append(viols, coop.Violation{Scenario: name, Trace: []string{desc}, Ops: []string{desc}, Error: clause + ": " + desc + ": " + detail, Signature: sig, Class: h.Class.String()})
		}
		probe := func(w *world.World) string {
			stuck := ""
			steps := []struct {
				name string
				f    func()
			}{
				{"filter of pod 0", func() { _, _ = w.Filter(h.pod(0).Key()) }},
				{"filter of pod 1", func() { _, _ = w.Filter(h.pod(1).Key()) }},
				{"handling the pending events", func() {
					for len(w.Pending) > 0 {
						w.Deliver(0)
					}
				}},
				{"resync", func() { _ = w.Resync() }},
				{"pool request", func() { w.PoolPost("pl", 2, true) }},
			}
			for _, s := range steps {
				p, timedOut := watchdog(5*time.Second, s.f)
				if timedOut {
					return s.name + " did not return within 5 s"
				}
				if p != nil {
					return s.name + " panicked: " + firstLines(fmt.Sprint(p), 3)
				}
			}
			return stuck
		}
		per := func(hist []Op, w2 *world.World, obs Obs) {
			n := obs.APIn
			if n == 0 || hangs >= 3 {
				return
			}
			pre := hist[:len(hist)-1]
			op := hist[len(hist)-1]
			for k2 := 2; k2 <= 2*n+1; k2++ {
				// the k-th call fails alone (even k2) / the k-th and every later call of the operation fail: an outage that begins
				// in mid-operation and is over when the probes run (odd k2)
				k, outage := k2/2, k2%2 == 1
				w, _, _ := BuildHist(h, pre)
				w.ResetFault(k)
				if outage {
					w.FaultAt, w.FaultFrom = 0, k
				}
				p, timedOut := watchdog(5*time.Second, func() { h.Apply(w, op) })
				w.ResetFault(0)
				evals++
				failed := ""
				for _, l := range w.APILog {
					if len(l) > 6 && l[:6] == "FAULT " {
						failed = l[6:]
					}
				}
				distinct[hashOf(histString(hist), k2)] = true
				if outage {
					failed += " and every later call"
				}
				if timedOut {
					hangs++
					report(hist, k, failed, "operation-does-not-return-after-api-failure", "no answer within 5 s")
					continue
				}
				if p != nil {
					report(hist, k, failed, "panic-after-api-failure", firstLines(fmt.Sprint(p), 3))
					continue
				}
				if why := probe(w); why != "" {
					hangs++
					report(hist, k, failed, "instance-wedged-after-failed-operation", why)
				}
			}
		}
		r := bfsObs(h, depth, deadline, per)
		sr := &ScenResult{Scenario: name, Class: h.Class.String(), Executions: evals, States: r.States, Transitions: r.Transitions, MaxDepth: r.MaxDepth,
			Exhaustive: r.Exhaustive && hangs < 3, Stopped: r.Stopped, WallS: time.Since(t0).Seconds(), Bounds: map[string]int{"depth": depth, "faults": 1}, Violations: viols}
		for d := range distinct {
			sr.Distinct = append(sr.Distinct, d)
			sr.Nontrivial = append(sr.Nontrivial, d)
		}
		return sr
	}}
}

func c18FaultProbeJobs(tier string) []Job {
	depth := 3
	if tier == "thorough" {
		depth = 4
	}
	var jobs []Job
	for _, h := range c18FaultProbeSystems() {
		jobs = append(jobs, c18FaultProbeJob(h, depth))
	}
	return jobs
}
