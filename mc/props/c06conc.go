package props

import (
	"fmt"
	"sort"

	"verif.local/mc/coop"
	"verif.local/mc/world"
)

// C06 under concurrency: a Filter (which looks the nodes' subnets up and remembers them) runs next to a run-time load of a
// configuration in which the nodes' subnet is split in two. Afterwards a fresh pod must be offered exactly the nodes that have a
// free routable address under the configuration in force, and can be bound on each of them.
func c06ConcurrentScenarios(tier string) []*Scenario {
	b := map[string]int{"preempt": 2}
	if tier == "thorough" {
		b = map[string]int{"preempt": 3}
	}
	nodes := []world.NodeSpec{{Name: "n1", IP: "10.0.1.11"}, {Name: "n2", IP: "10.0.1.130"}}
	cfgA := "[" + poolJSON([]string{"10.0.1.0/24"}, []string{"10.10.1.1~10.10.1.2"}, "10.10.1.0/24", "10.10.1.254", 0) + "]"
	cfgB := "[" + poolJSON([]string{"10.0.1.0/25"}, []string{"10.10.1.1"}, "10.10.1.0/24", "10.10.1.254", 0) + "," +
		poolJSON([]string{"10.0.1.128/25"}, []string{"10.10.2.1"}, "10.10.2.0/24", "10.10.2.254", 2) + "]"
	return []*Scenario{{Name: "filter/vs-load-of-split-node-subnets", Class: "concurrent", Cfg: world.Config{Pools: cfgA, Nodes: nodes}, Bounds: b, Weight: 2,
		Build: func(w *world.World) []Thread {
			w.SetStatefulSet("ns", "a", 3)
			x := world.PodSpec{Name: "a-0", NS: "ns", OwnerKind: "StatefulSet", OwnerName: "a"}
			w.CreatePod(x)
			return []Thread{
				{"filter-x", func() { _, _ = w.Filter(x.Key()) }},
				{"load", func() { w.ConfigMap = cfgB; _ = w.Reload() }},
			}
		},
		Final: func(w *world.World) {
			y := world.PodSpec{Name: "a-1", NS: "ns", OwnerKind: "StatefulSet", OwnerName: "a"}
			p := w.CreatePod(y)
			offered, err := w.Filter(y.Key())
			sort.Strings(offered)
			cfg := world.Config{Pools: w.ConfigMap, Nodes: nodes}
			var want []string
			for _, n := range nodes {
				for _, ip := range allIPs(cfg) {
					if routableNodes(cfg, ip)[n.Name] {
						want = append(want, n.Name)
						break
					}
				}
			}
			sort.Strings(want)
			if w.MustKeep == nil {
				w.MustKeep = map[string]string{}
			}
			if err != nil || fmt.Sprint(offered) != fmt.Sprint(want) {
				w.MustKeep["violation"] = fmt.Sprintf("after the load of %s a fresh pod is offered %v (err %v), the nodes with a free routable address are %v", w.ConfigMap, offered, err, want)
				return
			}
			for _, n := range offered {
				if err := w.Bind(p.Namespace, p.Name, string(p.UID), n); err != nil {
					w.MustKeep["violation"] = fmt.Sprintf("bind on the offered node %s fails: %v", n, err)
				}
				break
			}
		}}}
}

func oracleC06Concurrent(w *world.World, s *coop.Sched, final bool) *Finding {
	if v, ok := w.MustKeep["violation"]; ok {
		return &Finding{Clause: "offered-set-differs-from-free-routable-nodes", Detail: v}
	}
	return nil
}
