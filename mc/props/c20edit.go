package props

import (
	"encoding/json"
	"fmt"
	"net"
	"strings"
	"time"

	"tkestack.io/galaxy/pkg/ipam/floatingip"
	"tkestack.io/galaxy/pkg/utils/nets"
)

// C20, edit sequences: a decoded pool edited with InsertIP / RemoveIP stays a well-formed pool — after every operation of
// every sequence up to the depth, ranges sorted / disjoint / not mergeable / inside the subnet, Size == number of distinct
// IPs, Contains == membership for every address of the universe, and the JSON round trip yields the same pool; the return
// value says whether the set changed. Reference: a set of uint32.

type c20EditStart struct {
	subnet, gw string
	ips        []string
	universe   []string
}

func c20EditStarts() []c20EditStart {
	u := func(prefix string, from, to int, extra ...string) []string {
		var out []string
		for i := from; i <= to; i++ {
			out = append(out, fmt.Sprintf("%s%d", prefix, i))
		}
		return append(out, extra...)
	}
	mid := u("10.0.0.", 1, 9, "10.0.1.1")
	top := u("255.255.255.", 249, 255, "255.255.254.1")
	return []c20EditStart{
		{"10.0.0.0/24", "10.0.0.254", []string{"10.0.0.2~10.0.0.8"}, mid},
		{"10.0.0.0/24", "10.0.0.254", []string{"10.0.0.1~10.0.0.3", "10.0.0.6~10.0.0.8"}, mid},
		{"10.0.0.0/24", "10.0.0.254", []string{"10.0.0.1~10.0.0.3", "10.0.0.5", "10.0.0.7~10.0.0.9"}, mid},
		{"10.0.0.0/24", "10.0.0.254", []string{"10.0.0.2", "10.0.0.4", "10.0.0.6", "10.0.0.8"}, mid},
		{"10.0.0.0/24", "10.0.0.254", []string{"10.0.0.5"}, mid},
		{"255.255.255.0/24", "255.255.255.1", []string{"255.255.255.250~255.255.255.255"}, top},
		{"255.255.255.0/24", "255.255.255.1", []string{"255.255.255.249~255.255.255.251", "255.255.255.253~255.255.255.255"}, top},
	}
}

type c20EditOp struct {
	insert bool
	ip     string
}

func (o c20EditOp) String() string {
	if o.insert {
		return "insert(" + o.ip + ")"
	}
	return "remove(" + o.ip + ")"
}

func c20EditJob(tier string) Job {
	name := "pool-edit-sequences"
	return Job{Name: name, Weight: 2, Run: func(deadline time.Time) *ScenResult {
		t0 := time.Now()
		r := newCaseResult()
		depth := 3
		if tier == "thorough" {
			depth = 4
		}
		states, transitions := 0, 0
		for si, st := range c20EditStarts() {
			text := poolText(st.subnet, st.gw, st.ips, "nodeSubnets")
			_, subnet, _ := net.ParseCIDR(st.subnet)
			var ops []c20EditOp
			for _, ip := range st.universe {
				ops = append(ops, c20EditOp{true, ip}, c20EditOp{false, ip})
			}
			// state = operation history (replayed on a freshly decoded pool: decoded slices have no spare capacity, as in
			// production); deduplicated by (ranges, capacity-free fingerprint) is NOT sound for capacity-dependent code, so
			// histories are enumerated without merging
			var rec func(hist []c20EditOp)
			stop := false
			target := 0
			broken := map[string]bool{} // histories whose state already disagreed: not extended
			rec = func(hist []c20EditOp) {
				if stop || broken[fmt.Sprint(hist)] {
					return
				}
				if len(hist) < target {
					// shortest histories first (iterative deepening): interior nodes were checked in an earlier pass
					for _, o := range ops {
						rec(append(append([]c20EditOp{}, hist...), o))
					}
					return
				}
				if time.Now().After(deadline) {
					r.exhausted = false
					stop = true
					return
				}
				var pool floatingip.FloatingIPPool
				if err := json.Unmarshal([]byte(text), &pool); err != nil {
					panic(err)
				}
				// (the pool is encoded once before it is edited, as galaxy-ipam does when it logs a configuration it has loaded: what an
				// encoding says must follow the edits that come after it)
				_, _ = json.Marshal(&pool)
				_ = pool.String()
				set := map[uint32]bool{}
				for _, t := range st.ips {
					rg := nets.ParseIPRange(t)
					for x := nets.IPToInt(rg.First); ; x++ {
						set[x] = true
						if x == nets.IPToInt(rg.Last) {
							break
						}
					}
				}
				var names []string
				bad := ""
				for _, o := range hist {
					ip := net.ParseIP(o.ip)
					x := nets.IPToInt(ip)
					names = append(names, o.String())
					var got, want bool
					if o.insert {
						want = subnet.Contains(ip) && !set[x]
						got = pool.InsertIP(ip)
						if want {
							set[x] = true
						}
					} else {
						want = set[x]
						got = pool.RemoveIP(ip)
						delete(set, x)
					}
					if got != want {
						bad = fmt.Sprintf("%s returned %v, the set model says %v", o, got, want)
					}
				}
				states++
				r.evals++
				desc := fmt.Sprintf("pool %s after %s", text, strings.Join(names, ", "))
				if bad == "" {
					bad = c20PoolVsSet(&pool, set, st.universe)
				}
				r.distinct[hashOf(si, fmt.Sprint(pool.IPRanges))] = true
				if len(r.samples) < 3 && r.evals%997 == 1 {
					r.samples = append(r.samples, fmt.Sprintf("%s -> %v", desc, pool.IPRanges))
				}
				if bad != "" {
					last := "start"
					if len(hist) > 0 {
						last = map[bool]string{true: "InsertIP", false: "RemoveIP"}[hist[len(hist)-1].insert]
					}
					r.violate("C20", name, "edited", "edited-pool-differs-from-set-model", last, desc+": "+bad+fmt.Sprintf(" (ranges %v)", pool.IPRanges), []string{desc})
					broken[fmt.Sprint(hist)] = true // successors of a broken state are not explored
				}
				if len(hist) > 0 {
					transitions++
				}
			}
			for target = 0; target <= depth && !stop; target++ {
				rec(nil)
			}
		}
		sr := r.toScen(name, t0, map[string]int{"depth": depth, "start_pools": len(c20EditStarts())})
		sr.States, sr.Transitions = states, transitions
		return sr
	}}
}

// c20PoolVsSet compares a pool with the set model; "" = agree.
func c20PoolVsSet(pool *floatingip.FloatingIPPool, set map[uint32]bool, universe []string) string {
	// ranges: inside the subnet, first <= last, sorted, disjoint, not mergeable
	ipn := pool.IPNet()
	var enumerated []uint32
	for i, rg := range pool.IPRanges {
		f, l := nets.IPToInt(rg.First), nets.IPToInt(rg.Last)
		if f > l {
			return fmt.Sprintf("range %d is reversed", i)
		}
		if !ipn.Contains(rg.First) || !ipn.Contains(rg.Last) {
			return fmt.Sprintf("range %d leaves the subnet", i)
		}
		if i > 0 {
			pl := nets.IPToInt(pool.IPRanges[i-1].Last)
			if f <= pl {
				return fmt.Sprintf("ranges %d and %d overlap or are out of order", i-1, i)
			}
			if f == pl+1 {
				return fmt.Sprintf("ranges %d and %d can be merged", i-1, i)
			}
		}
		for x := f; ; x++ {
			enumerated = append(enumerated, x)
			if x == l {
				break
			}
		}
	}
	if len(enumerated) != len(set) {
		return fmt.Sprintf("enumerates %d addresses, the set has %d", len(enumerated), len(set))
	}
	for _, x := range enumerated {
		if !set[x] {
			return fmt.Sprintf("enumerates %s which is not in the set", nets.IntToIP(x))
		}
	}
	if uint64(pool.Size()) != uint64(len(set)) {
		return fmt.Sprintf("Size()=%d, distinct IPs %d", pool.Size(), len(set))
	}
	for _, a := range universe {
		ip := net.ParseIP(a)
		if pool.Contains(ip) != set[nets.IPToInt(ip)] {
			return fmt.Sprintf("Contains(%s)=%v", a, pool.Contains(ip))
		}
	}
	if len(pool.IPRanges) == 0 {
		return "" // an emptied pool has no configuration text to round-trip
	}
	data, err := json.Marshal(pool)
	if err != nil {
		return "encoding fails: " + err.Error()
	}
	var back floatingip.FloatingIPPool
	if err := json.Unmarshal(data, &back); err != nil {
		return fmt.Sprintf("its encoding %s is rejected: %v", data, err)
	}
	if poolFingerprint(&back) != poolFingerprint(pool) {
		return fmt.Sprintf("round trip yields another pool: %s", data)
	}
	return ""
}
