package props

import (
	"fmt"
	"net"
	"sort"
	"strings"
	"time"

	corev1 "k8s.io/api/core/v1"
	networkv1 "k8s.io/api/networking/v1"
	metav1 "k8s.io/apimachinery/pkg/apis/meta/v1"
	"k8s.io/apimachinery/pkg/labels"

	"verif.local/mc/nfsim"
)

// C16: the rules galaxy installs accept a new connection exactly when the Kubernetes NetworkPolicy semantics allow it.
//
// The reference evaluator is written from the API semantics. It has named, individually switchable deviations ("quirks"):
// a disagreement between the packet walk and the reference is attributed to the smallest set of quirks that makes the
// reference agree; every quirk in that set is reported as its own finding (signature C16|semantics-deviation|<quirk>|),
// and a disagreement no quirk set explains is reported as an unexplained violation.

type quirks struct {
	EmptyPeersMatchNothing   bool // a rule without from/to peers yields no iptables rule at all
	PodSelectorAnyNamespace  bool // a podSelector-only peer is resolved across all namespaces
	NSAndPodSelectorIgnoreNS bool // a combined namespaceSelector+podSelector peer is resolved as podSelector across all namespaces
	SharedPolicyChain        bool // one chain per policy serves both directions: rules of the other direction apply too
	EgressAcceptSkipsIngress bool // ACCEPT in the source pod's egress walk ends FORWARD before the destination pod's ingress chain
}

var quirkNames = []string{"empty-peers-match-nothing", "podselector-peer-any-namespace", "ns+pod-selector-peer-ignores-namespace",
	"policy-chain-shared-by-both-directions", "egress-accept-skips-ingress-of-local-destination"}

func quirksOf(mask int) quirks {
	return quirks{mask&1 != 0, mask&2 != 0, mask&4 != 0, mask&8 != 0, mask&16 != 0}
}

type refCluster struct {
	c    pwCluster
	nsL  map[string]map[string]string
	byIP map[string]*pwPod
}

func newRefCluster(c pwCluster) *refCluster {
	r := &refCluster{c: c, nsL: map[string]map[string]string{}, byIP: map[string]*pwPod{}}
	for _, n := range pwNamespaces {
		r.nsL[n.Name] = n.Labels
	}
	for i := range c.Pods {
		if c.Pods[i].IP != "" {
			r.byIP[c.Pods[i].IP] = &c.Pods[i]
		}
	}
	return r
}

func selMatches(s *metav1.LabelSelector, l map[string]string) bool {
	ls, err := metav1.LabelSelectorAsSelector(s)
	if err != nil {
		return false
	}
	return ls.Matches(labels.Set(l))
}

func (r *refCluster) peerMatches(q quirks, np *networkv1.NetworkPolicy, peer networkv1.NetworkPolicyPeer, ip string) bool {
	if peer.IPBlock != nil && peer.PodSelector == nil && peer.NamespaceSelector == nil {
		_, n, err := net.ParseCIDR(peer.IPBlock.CIDR)
		if err != nil || !n.Contains(net.ParseIP(ip)) {
			return false
		}
		for _, e := range peer.IPBlock.Except {
			if _, en, err := net.ParseCIDR(e); err == nil && en.Contains(net.ParseIP(ip)) {
				return false
			}
		}
		return true
	}
	pod := r.byIP[ip]
	if pod == nil {
		return false
	}
	switch {
	case peer.PodSelector != nil && peer.NamespaceSelector != nil:
		if q.NSAndPodSelectorIgnoreNS {
			return selMatches(peer.PodSelector, pod.Labels)
		}
		return selMatches(peer.NamespaceSelector, r.nsL[pod.NS]) && selMatches(peer.PodSelector, pod.Labels)
	case peer.PodSelector != nil:
		if !q.PodSelectorAnyNamespace && pod.NS != np.Namespace {
			return false
		}
		return selMatches(peer.PodSelector, pod.Labels)
	case peer.NamespaceSelector != nil:
		return selMatches(peer.NamespaceSelector, r.nsL[pod.NS])
	}
	return false
}

func portsMatch(ports []networkv1.NetworkPolicyPort, proto string, port int) bool {
	if len(ports) == 0 {
		return true
	}
	for _, p := range ports {
		pp := "tcp"
		if p.Protocol != nil {
			pp = strings.ToLower(string(*p.Protocol))
		}
		if pp != proto {
			continue
		}
		if p.Port == nil || p.Port.IntValue() == port {
			return true
		}
	}
	return false
}

func policyDirs(np *networkv1.NetworkPolicy) (in, eg bool) {
	for _, t := range np.Spec.PolicyTypes {
		if t == networkv1.PolicyTypeIngress {
			in = true
		}
		if t == networkv1.PolicyTypeEgress {
			eg = true
		}
	}
	if len(np.Spec.PolicyTypes) == 0 {
		in = true
		eg = len(np.Spec.Egress) > 0
	}
	return
}

func (r *refCluster) selects(np *networkv1.NetworkPolicy, pod *pwPod) bool {
	return np.Namespace == pod.NS && selMatches(&np.Spec.PodSelector, pod.Labels)
}

// ruleAccepts: does an ingress-type (from) or egress-type (to) rule of np accept the flow src->dst?
// ingress-type: src in peers, dst selected; egress-type: src selected, dst in peers.
func (r *refCluster) ingressRuleAccepts(q quirks, np *networkv1.NetworkPolicy, rule networkv1.NetworkPolicyIngressRule, src, dst, proto string, port int) bool {
	d := r.byIP[dst]
	if d == nil || !r.selects(np, d) || !portsMatch(rule.Ports, proto, port) {
		return false
	}
	if len(rule.From) == 0 {
		return !q.EmptyPeersMatchNothing
	}
	for _, p := range rule.From {
		if r.peerMatches(q, np, p, src) {
			return true
		}
	}
	return false
}

func (r *refCluster) egressRuleAccepts(q quirks, np *networkv1.NetworkPolicy, rule networkv1.NetworkPolicyEgressRule, src, dst, proto string, port int) bool {
	s := r.byIP[src]
	if s == nil || !r.selects(np, s) || !portsMatch(rule.Ports, proto, port) {
		return false
	}
	if len(rule.To) == 0 {
		return !q.EmptyPeersMatchNothing
	}
	for _, p := range rule.To {
		if r.peerMatches(q, np, p, dst) {
			return true
		}
	}
	return false
}

// allowed evaluates direction dir ("ingress": about pod x = dst; "egress": about pod x = src).
func (r *refCluster) allowed(q quirks, dir string, x *pwPod, src, dst, proto string, port int) (isolated, ok bool) {
	for _, np := range r.c.Policies {
		if !r.selects(np, x) {
			continue
		}
		in, eg := policyDirs(np)
		if (dir == "ingress" && in) || (dir == "egress" && eg) {
			isolated = true
		}
	}
	if !isolated {
		return false, true
	}
	for _, np := range r.c.Policies {
		if !r.selects(np, x) {
			continue
		}
		in, eg := policyDirs(np)
		if (dir == "ingress" || q.SharedPolicyChain) && in {
			for _, rule := range np.Spec.Ingress {
				if r.ingressRuleAccepts(q, np, rule, src, dst, proto, port) {
					return true, true
				}
			}
		}
		if (dir == "egress" || q.SharedPolicyChain) && eg {
			for _, rule := range np.Spec.Egress {
				if r.egressRuleAccepts(q, np, rule, src, dst, proto, port) {
					return true, true
				}
			}
		}
	}
	return true, false
}

// verdict is what the node must do with a new connection src->dst.
func (r *refCluster) verdict(q quirks, src, dst, proto string, port int) string {
	s, d := r.byIP[src], r.byIP[dst]
	if s != nil && s.OnNode {
		iso, ok := r.allowed(q, "egress", s, src, dst, proto, port)
		if !ok {
			return "DROP"
		}
		if iso && q.EgressAcceptSkipsIngress {
			return "ACCEPT"
		}
	}
	if d != nil && d.OnNode {
		if _, ok := r.allowed(q, "ingress", d, src, dst, proto, port); !ok {
			return "DROP"
		}
	}
	return "ACCEPT"
}

func popcount(x int) int {
	n := 0
	for ; x > 0; x >>= 1 {
		n += x & 1
	}
	return n
}

func c16Job(shard, nshards int, tier string) Job {
	name := fmt.Sprintf("flows/shard%d", shard)
	return Job{Name: name, Weight: 3, Run: func(deadline time.Time) *ScenResult {
		t0 := time.Now()
		r := newCaseResult()
		menu := policyMenu()
		var names []string
		for n := range menu {
			if !strings.Contains(n, "@") {
				names = append(names, n)
			}
		}
		sort.Strings(names)
		var variantNames []string
		for n := range menu {
			if strings.Contains(n, "@") {
				variantNames = append(variantNames, n)
			}
		}
		sort.Strings(variantNames)
		var polSets [][]string
		polSets = append(polSets, []string{})
		for i := range names {
			polSets = append(polSets, []string{names[i]})
			for j := i + 1; j < len(names); j++ {
				polSets = append(polSets, []string{names[i], names[j]})
				for l := j + 1; l < len(names); l++ {
					polSets = append(polSets, []string{names[i], names[j], names[l]})
				}
			}
		}
		podSets := [][]string{{"web", "db", "cli2"}, {"web", "db", "cli2-off"}, {"web", "db", "bare"}, {"web", "db-plain", "cli2"}}
		if tier == "thorough" {
			podSets = append(podSets, []string{"web", "db", "cli2", "noip"})
		}
		externals := []string{"10.9.0.5", "10.9.1.5", "10.9.2.7", "172.16.0.1", "10.0.1.9"} // the last one: the address of a pod that went away
		ports := []int{80, 81, 53}
		quirkHits := map[string]int{}
		n := 0
		flows := 0
		bounds := map[string]int{"policy_sets": len(polSets), "pod_sets": len(podSets)}
		for _, ps := range podSets {
			for _, pl := range polSets {
				n++
				if n%nshards != shard {
					continue
				}
				if time.Now().After(deadline) {
					r.exhausted = false
					break
				}
				c := mkCluster(ps, pl)
				// the rules are evaluated after a sync from an empty kernel and after syncs from earlier cluster states
				// (same policies with other pod labels; a wider version of an ipBlock policy under the same name)
				type start struct {
					name string
					pods []string
					pols []string
					// events: after the sync of (pods, pols) these pod events lead to the cluster under test; no further full sync
					events []c15Event
					// staleClause: deviations after this start are reported under this clause (a named, known kind of staleness)
					staleClause string
					// notStarted: the cluster under test is synced by a fresh manager whose pod informer has not been started (a
					// daemon start while no policy exists)
					notStarted bool
				}
				starts := []start{{name: "empty kernel"}}
				relabel := [][]string{{"web", "db", "cli2"}, {"web", "db-plain", "cli2"}}
				for _, alt := range relabel {
					// only label changes of the same pods on the same node (pods that vanish or move are C15's known findings)
					if fmt.Sprint(alt) != fmt.Sprint(ps) && (fmt.Sprint(ps) == fmt.Sprint(relabel[0]) || fmt.Sprint(ps) == fmt.Sprint(relabel[1])) {
						starts = append(starts, start{name: "pods " + fmt.Sprint(alt), pods: alt, pols: pl})
					}
				}
				// pod events instead of a full sync: a pod of another namespace gets its address / goes away, a pod loses a label
				replace := func(from, to string) []string {
					out := append([]string{}, ps...)
					for i := range out {
						if out[i] == from {
							out[i] = to
						}
					}
					return out
				}
				has := func(n string) bool {
					for _, x := range ps {
						if x == n {
							return true
						}
					}
					return false
				}
				if has("cli2") {
					starts = append(starts, start{name: "pod event: cli2 (ns2) gets its address", pods: replace("cli2", "cli2-pending"), pols: pl,
						events: []c15Event{{Kind: "pod-update", Pod: pwPodMenu["cli2"], Old: pwPodMenu["cli2-pending"]}}})
				}
				if has("db") {
					// a pod of the policies' own namespace gets its address (pod-selector peers select within that namespace only)
					starts = append(starts, start{name: "pod event: db (ns1) gets its address", pods: replace("db", "db-noip"), pols: pl,
						events: []c15Event{{Kind: "pod-update", Pod: pwPodMenu["db"], Old: pwPodMenu["db-noip"]}}})
				}
				for _, pn := range []string{"web", "db"} {
					if has(pn) {
						// a pod leaves and returns under its name with its address (what a handler remembers of the first one must
						// not stand in for the rules of the second)
						starts = append(starts, start{name: "pod events: " + pn + " is deleted and re-created with its address", pods: ps, pols: pl,
							events: []c15Event{{Kind: "pod-delete", Pod: pwPodMenu[pn]}, {Kind: "pod-update", Pod: pwPodMenu[pn], Old: pwPodMenu[pn]}}})
					}
				}
				starts = append(starts, start{name: "pod event: a pod of ns2 on another node is deleted", pods: append(append([]string{}, ps...), "ghost2"), pols: pl,
					events: []c15Event{{Kind: "pod-delete", Pod: pwPodMenu["ghost2"]}}})
				if has("db-plain") {
					starts = append(starts, start{name: "pod event: db loses its label role=client", pods: replace("db-plain", "db"), pols: pl,
						events:      []c15Event{{Kind: "pod-update", Pod: pwPodMenu["db-plain"], Old: pwPodMenu["db"]}},
						staleClause: "membership-from-old-labels-kept-after-pod-update"})
				}
				for i, pn := range pl {
					for _, vn := range variantNames {
						if !strings.HasPrefix(vn, pn+"@") {
							continue
						}
						// another version of the object under the same name: full sync from it, and an update event from it
						other := append([]string{}, pl...)
						other[i] = vn
						starts = append(starts, start{name: "policies " + fmt.Sprint(other), pods: ps, pols: other})
						starts = append(starts, start{name: "policy event: update from " + vn, pods: ps, pols: other,
							events: []c15Event{{Kind: "policy-update", NP: menu[pn], OldP: menu[vn]}}})
					}
				}
				if len(pl) == 0 {
					starts = append(starts, start{name: "restart after the policies in-podsel, in-denyall were deleted while galaxy was down", pods: ps, pols: []string{"in-podsel", "in-denyall"}, notStarted: true})
				}
				for _, st := range starts {
					k := nfsim.New()
					w := newPolicyWorld(k)
					if st.pods != nil {
						w.setCluster(mkCluster(st.pods, st.pols))
						w.pm.Run()
					}
					if st.events != nil {
						cur := mkCluster(st.pods, st.pols)
						for _, ev := range st.events {
							applyEvent(w, &cur, ev)
						}
					} else {
						if st.notStarted {
							w.newManagerNotStarted(c)
						}
						w.setCluster(c)
						w.pm.Run()
					}
					ref := newRefCluster(c)
					var addrs []string
					for _, p := range c.Pods {
						if p.IP != "" {
							addrs = append(addrs, p.IP)
						}
					}
					addrs = append(addrs, externals...)
					for _, src := range addrs {
						for _, dst := range addrs {
							if src == dst {
								continue
							}
							sp, dp := ref.byIP[src], ref.byIP[dst]
							if !((sp != nil && sp.OnNode) || (dp != nil && dp.OnNode)) {
								continue
							}
							for _, proto := range []string{"tcp", "udp"} {
								for _, port := range ports {
									flows++
									r.evals++
									got, trace, err := k.Walk("filter", "FORWARD", nfsim.Packet{Src: src, Dst: dst, Proto: proto, DPort: port})
									desc := fmt.Sprintf("pods=%v policies=%v (synced from: %s) flow %s -> %s %s/%d", ps, pl, st.name, src, dst, proto, port)
									if err != nil {
										r.violate("C16", name, "walk", "packet-walk-failed", "nfsim", desc+": "+err.Error(), []string{desc})
										continue
									}
									want := ref.verdict(quirks{}, src, dst, proto, port)
									r.distinct[hashOf(ps, pl, st.name, src, dst, proto, port, got)] = true
									if len(r.samples) < 3 && r.evals%4099 == 1 {
										r.samples = append(r.samples, fmt.Sprintf("%s: rules say %s, NetworkPolicy semantics say %s", desc, got, want))
									}
									if got == want {
										continue
									}
									// attribute to the smallest quirk set that explains it
									best := -1
									for mask := 1; mask < 32; mask++ {
										if ref.verdict(quirksOf(mask), src, dst, proto, port) == got {
											if best < 0 || popcount(mask) < popcount(best) {
												best = mask
											}
										}
									}
									if best < 0 && st.staleClause != "" {
										r.violate("C16", name, "", st.staleClause, "UpdatePod",
											fmt.Sprintf("%s: installed rules %s, semantics %s; matched rules: %v", desc, got, want, trace), []string{desc})
										continue
									}
									if best < 0 {
										r.violate("C16", name, "unexplained", "verdict-differs-from-networkpolicy-semantics", "unexplained",
											fmt.Sprintf("%s: installed rules %s, semantics %s; matched rules: %v", desc, got, want, trace), []string{desc})
										continue
									}
									for i, qn := range quirkNames {
										if best&(1<<uint(i)) != 0 {
											quirkHits[qn]++
											r.violate("C16", name, "", "semantics-deviation", qn,
												fmt.Sprintf("%s: installed rules %s, semantics %s (explained by deviation set %v); matched rules: %v", desc, got, want, quirkSet(best), trace), []string{desc})
										}
									}
								}
							}
						}
					}
				}
			}
		}
		sr := r.toScen(name, t0, bounds)
		sr.Extra = map[string]int{"flows": flows}
		for q, c := range quirkHits {
			sr.Extra["flows_explained_by:"+q] = c
		}
		return sr
	}}
}

func quirkSet(mask int) []string {
	var out []string
	for i, n := range quirkNames {
		if mask&(1<<uint(i)) != 0 {
			out = append(out, n)
		}
	}
	return out
}

func init() {
	register(&Property{ID: "C16", Level: "exploration", QuickS: 120, ThoroughS: 900,
		Assume: []string{"verdicts come from a packet walk (table filter, hook FORWARD, NEW connections) over the rules and sets the real PolicyManager installed in the netfilter simulator mc/nfsim",
			"clusters: 2 namespaces, pods web/db/cli2 (on or off the node), all sets of <=3 policies out of 20 shapes (two rules sharing their first peer, pod/namespace/combined selectors, ipBlock with except, tcp/udp ports incl. one number under both protocols and a port without protocol, deny-all, allow-all, both directions, implicit egress type)",
			"flows: every ordered pair of pod and external addresses (inside block / inside except / outside) with a local pod at either end x {tcp,udp} x {80,81,53}; host-originated traffic, named ports and SCTP are outside the alphabet",
			"reference = evaluator written from the NetworkPolicy API semantics with five named, switchable deviations used only to attribute disagreements to known findings"},
		Rule: "for every (pod set, policy set): one real full sync, then every flow is walked through the installed rules and compared with the reference verdict; distinct/non-trivial = distinct (cluster, policies, flow, verdict) tuples",
		Jobs: func(tier string) []Job {
			var jobs []Job
			for s := 0; s < 16; s++ {
				jobs = append(jobs, c16Job(s, 16, tier))
			}
			return jobs
		}})
	replayers["C16"] = replayDescOnly
	_ = corev1.ProtocolTCP
}
