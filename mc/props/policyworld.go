package props

import (
	"fmt"
	"k8s.io/apimachinery/pkg/runtime"
	kubefake "k8s.io/client-go/kubernetes/fake"
	"sort"
	"strings"
	"sync"

	corev1 "k8s.io/api/core/v1"
	networkv1 "k8s.io/api/networking/v1"
	metav1 "k8s.io/apimachinery/pkg/apis/meta/v1"
	"k8s.io/apimachinery/pkg/util/intstr"
	corelisters "k8s.io/client-go/listers/core/v1"
	netlisters "k8s.io/client-go/listers/networking/v1"
	"k8s.io/client-go/tools/cache"
	"tkestack.io/galaxy/pkg/api/k8s"
	"tkestack.io/galaxy/pkg/policy"
	"tkestack.io/galaxy/pkg/utils/ipset"
	utiliptables "tkestack.io/galaxy/pkg/utils/iptables"

	"verif.local/mc/nfsim"
)

// Policy world: cluster objects behind listers we own, a PolicyManager over the netfilter simulator.

type pwPod struct {
	NS, Name string
	Labels   map[string]string
	IP       string
	OnNode   bool
}

type pwCluster struct {
	Pods     []pwPod
	Policies []*networkv1.NetworkPolicy
}

var pwNamespaces = []*corev1.Namespace{
	{ObjectMeta: metav1.ObjectMeta{Name: "ns1", Labels: map[string]string{"team": "a"}}},
	{ObjectMeta: metav1.ObjectMeta{Name: "ns2", Labels: map[string]string{"team": "b"}}},
	// a namespace whose name extends another one's: "web_ns1" is a substring of "web_ns12"
	{ObjectMeta: metav1.ObjectMeta{Name: "ns12", Labels: map[string]string{"team": "c"}}},
}

type policyWorld struct {
	k                     *nfsim.Kernel
	mu                    sync.Mutex
	pm                    *policy.PolicyManager
	podIdx, nsIdx, polIdx cache.Indexer
	host                  string
}

type lockedExec struct{ w *policyWorld }

func newPolicyWorld(k *nfsim.Kernel) *policyWorld {
	idx := func() cache.Indexer {
		return cache.NewIndexer(cache.MetaNamespaceKeyFunc, cache.Indexers{cache.NamespaceIndex: cache.MetaNamespaceIndexFunc})
	}
	w := &policyWorld{k: k, podIdx: idx(), nsIdx: idx(), polIdx: idx(), host: k8s.GetHostname()}
	for _, n := range pwNamespaces {
		_ = w.nsIdx.Add(n)
	}
	w.newManager()
	return w
}

// newManager creates a fresh PolicyManager over the same kernel and listers (daemon restart).
func (w *policyWorld) newManager() {
	k := w.k
	k.Serialize = true // syncPods fans out goroutines; the simulator serialises commands like the kernel's xtables lock does
	w.pm = policy.NewVerif(embedKubeClient(), ipset.New(k.Exec()), utiliptables.New(k.Exec(), utiliptables.ProtocolIpv4), w.host,
		corelisters.NewPodLister(w.podIdx), corelisters.NewNamespaceLister(w.nsIdx), netlisters.NewNetworkPolicyLister(w.polIdx))
}

// newManagerNotStarted: a fresh PolicyManager as after a daemon start with no NetworkPolicy in the cluster: its pod informer has
// not been started, it lists the pods of c through the client.
func (w *policyWorld) newManagerNotStarted(c pwCluster) {
	k := w.k
	k.Serialize = true
	var objs []runtime.Object
	for _, p := range c.Pods {
		objs = append(objs, w.podObj(p))
	}
	w.pm = policy.NewVerifNotStarted(kubefake.NewSimpleClientset(objs...), ipset.New(k.Exec()), utiliptables.New(k.Exec(), utiliptables.ProtocolIpv4), w.host,
		corelisters.NewPodLister(w.podIdx), corelisters.NewNamespaceLister(w.nsIdx), netlisters.NewNetworkPolicyLister(w.polIdx))
}

func (w *policyWorld) podObj(p pwPod) *corev1.Pod {
	pod := &corev1.Pod{ObjectMeta: metav1.ObjectMeta{Name: p.Name, Namespace: p.NS, Labels: p.Labels}, Status: corev1.PodStatus{PodIP: p.IP}}
	if p.OnNode {
		pod.Spec.NodeName = w.host
	} else {
		pod.Spec.NodeName = "other-node"
	}
	return pod
}

// setCluster makes the listers show exactly c.
func (w *policyWorld) setCluster(c pwCluster) {
	for _, o := range w.podIdx.List() {
		_ = w.podIdx.Delete(o)
	}
	for _, o := range w.polIdx.List() {
		_ = w.polIdx.Delete(o)
	}
	for _, p := range c.Pods {
		_ = w.podIdx.Add(w.podObj(p))
	}
	for _, np := range c.Policies {
		_ = w.polIdx.Add(np)
	}
}

// ---------------------------------------------------------------------------------------------
// policy shape menu

func sel(kv ...string) *metav1.LabelSelector {
	m := map[string]string{}
	for i := 0; i+1 < len(kv); i += 2 {
		m[kv[i]] = kv[i+1]
	}
	return &metav1.LabelSelector{MatchLabels: m}
}

func port(proto corev1.Protocol, n int) networkv1.NetworkPolicyPort {
	p := intstr.FromInt(n)
	return networkv1.NetworkPolicyPort{Protocol: &proto, Port: &p}
}

func portNoProto(n int) networkv1.NetworkPolicyPort {
	p := intstr.FromInt(n)
	return networkv1.NetworkPolicyPort{Port: &p}
}

func np(ns, name string, podSel *metav1.LabelSelector, types []networkv1.PolicyType, in []networkv1.NetworkPolicyIngressRule, eg []networkv1.NetworkPolicyEgressRule) *networkv1.NetworkPolicy {
	return &networkv1.NetworkPolicy{ObjectMeta: metav1.ObjectMeta{Name: name, Namespace: ns},
		Spec: networkv1.NetworkPolicySpec{PodSelector: *podSel, PolicyTypes: types, Ingress: in, Egress: eg}}
}

var (
	tIn   = []networkv1.PolicyType{networkv1.PolicyTypeIngress}
	tEg   = []networkv1.PolicyType{networkv1.PolicyTypeEgress}
	tBoth = []networkv1.PolicyType{networkv1.PolicyTypeIngress, networkv1.PolicyTypeEgress}
)

// policyMenu returns the policy shapes by name.
func policyMenu() map[string]*networkv1.NetworkPolicy {
	peerPod := func(kv ...string) networkv1.NetworkPolicyPeer {
		return networkv1.NetworkPolicyPeer{PodSelector: sel(kv...)}
	}
	peerNS := func(kv ...string) networkv1.NetworkPolicyPeer {
		return networkv1.NetworkPolicyPeer{NamespaceSelector: sel(kv...)}
	}
	peerBlock := func(cidr string, except ...string) networkv1.NetworkPolicyPeer {
		return networkv1.NetworkPolicyPeer{IPBlock: &networkv1.IPBlock{CIDR: cidr, Except: except}}
	}
	return map[string]*networkv1.NetworkPolicy{
		"in-podsel":      np("ns1", "in-podsel", sel("app", "web"), tIn, []networkv1.NetworkPolicyIngressRule{{From: []networkv1.NetworkPolicyPeer{peerPod("role", "client")}}}, nil),
		"in-nssel-port":  np("ns1", "in-nssel-port", sel("app", "web"), tIn, []networkv1.NetworkPolicyIngressRule{{From: []networkv1.NetworkPolicyPeer{peerNS("team", "b")}, Ports: []networkv1.NetworkPolicyPort{port(corev1.ProtocolTCP, 80)}}}, nil),
		"in-ipblock":     np("ns1", "in-ipblock", sel("app", "web"), tIn, []networkv1.NetworkPolicyIngressRule{{From: []networkv1.NetworkPolicyPeer{peerBlock("10.9.0.0/16", "10.9.1.0/24")}, Ports: []networkv1.NetworkPolicyPort{port(corev1.ProtocolTCP, 80), port(corev1.ProtocolUDP, 53)}}}, nil),
		"in-denyall":     np("ns1", "in-denyall", sel(), tIn, nil, nil),
		"eg-podsel-port": np("ns1", "eg-podsel-port", sel("app", "db"), tEg, nil, []networkv1.NetworkPolicyEgressRule{{To: []networkv1.NetworkPolicyPeer{peerPod("app", "web")}, Ports: []networkv1.NetworkPolicyPort{port(corev1.ProtocolTCP, 80)}}}),
		"eg-ipblock":     np("ns1", "eg-ipblock", sel("app", "db"), tEg, nil, []networkv1.NetworkPolicyEgressRule{{To: []networkv1.NetworkPolicyPeer{peerBlock("10.9.0.0/16", "10.9.1.0/24", "10.9.2.7/32")}}}),
		"both":           np("ns1", "both", sel("app", "web"), tBoth, []networkv1.NetworkPolicyIngressRule{{From: []networkv1.NetworkPolicyPeer{peerPod("role", "client")}}}, []networkv1.NetworkPolicyEgressRule{{To: []networkv1.NetworkPolicyPeer{peerNS("team", "b")}}}),
		"in-two-peers":   np("ns1", "in-two-peers", sel("app", "web"), tIn, []networkv1.NetworkPolicyIngressRule{{From: []networkv1.NetworkPolicyPeer{peerPod("role", "client"), peerNS("team", "b")}}}, nil),
		"in-two-rules":   np("ns1", "in-two-rules", sel("app", "web"), tIn, []networkv1.NetworkPolicyIngressRule{{From: []networkv1.NetworkPolicyPeer{peerPod("role", "client")}, Ports: []networkv1.NetworkPolicyPort{port(corev1.ProtocolTCP, 80)}}, {From: []networkv1.NetworkPolicyPeer{peerBlock("10.9.0.0/16")}, Ports: []networkv1.NetworkPolicyPort{port(corev1.ProtocolTCP, 81)}}}, nil),
		// two rules of one policy start with the same peer; the first one has a further peer of the same kind
		"in-shared-peer": np("ns1", "in-shared-peer", sel("app", "web"), tIn, []networkv1.NetworkPolicyIngressRule{
			{From: []networkv1.NetworkPolicyPeer{peerBlock("10.9.0.0/16", "10.9.1.0/24"), peerBlock("172.16.0.0/16")}, Ports: []networkv1.NetworkPolicyPort{port(corev1.ProtocolTCP, 80)}},
			{From: []networkv1.NetworkPolicyPeer{peerBlock("10.9.0.0/16", "10.9.1.0/24")}, Ports: []networkv1.NetworkPolicyPort{port(corev1.ProtocolTCP, 81)}}}, nil),
		// a rule whose first pod-selector peer selects nobody and whose second one selects the clients; a ports-only rule in
		// front of a rule with a selector peer (rule index and set index differ)
		"in-two-podsel":        np("ns1", "in-two-podsel", sel("app", "web"), tIn, []networkv1.NetworkPolicyIngressRule{{From: []networkv1.NetworkPolicyPeer{peerPod("role", "nobody"), peerPod("role", "client")}}}, nil),
		"in-ports-then-podsel": np("ns1", "in-ports-then-podsel", sel("app", "web"), tIn, []networkv1.NetworkPolicyIngressRule{{Ports: []networkv1.NetworkPolicyPort{port(corev1.ProtocolTCP, 81)}}, {From: []networkv1.NetworkPolicyPeer{peerPod("role", "client")}, Ports: []networkv1.NetworkPolicyPort{port(corev1.ProtocolTCP, 80)}}}, nil),
		"in-ns12":              np("ns12", "in-ns12", sel("app", "web"), tIn, []networkv1.NetworkPolicyIngressRule{{From: []networkv1.NetworkPolicyPeer{peerPod("role", "client")}}}, nil),
		"in-ns2":               np("ns2", "in-ns2", sel("app", "web"), tIn, []networkv1.NetworkPolicyIngressRule{{From: []networkv1.NetworkPolicyPeer{peerPod("role", "client")}}}, nil),
		"in-ports-only":        np("ns1", "in-ports-only", sel("app", "web"), tIn, []networkv1.NetworkPolicyIngressRule{{Ports: []networkv1.NetworkPolicyPort{port(corev1.ProtocolTCP, 80)}}}, nil),
		"in-ns-and-pod":        np("ns1", "in-ns-and-pod", sel("app", "web"), tIn, []networkv1.NetworkPolicyIngressRule{{From: []networkv1.NetworkPolicyPeer{{NamespaceSelector: sel("team", "b"), PodSelector: sel("role", "client")}}}}, nil),
		// the same port number under both protocols; a port without protocol (TCP) next to the same number under UDP
		"in-port-both-protos": np("ns1", "in-port-both-protos", sel("app", "web"), tIn, []networkv1.NetworkPolicyIngressRule{{From: []networkv1.NetworkPolicyPeer{peerBlock("10.9.0.0/16", "10.9.1.0/24")}, Ports: []networkv1.NetworkPolicyPort{port(corev1.ProtocolTCP, 53), port(corev1.ProtocolUDP, 53), port(corev1.ProtocolTCP, 81)}}}, nil),
		"eg-port-nil-proto":   np("ns1", "eg-port-nil-proto", sel("app", "db"), tEg, nil, []networkv1.NetworkPolicyEgressRule{{Ports: []networkv1.NetworkPolicyPort{portNoProto(80), port(corev1.ProtocolUDP, 80), port(corev1.ProtocolUDP, 53)}}}),
		"in-allow-all":        np("ns1", "in-allow-all", sel("app", "web"), tIn, []networkv1.NetworkPolicyIngressRule{{}}, nil),
		// wider versions of two shapes under the SAME object name: going from the wide to the narrow version only removes set members
		"in-ipblock@wide": np("ns1", "in-ipblock", sel("app", "web"), tIn, []networkv1.NetworkPolicyIngressRule{{From: []networkv1.NetworkPolicyPeer{peerBlock("10.9.0.0/16", "10.9.1.0/24", "10.9.0.5/32"), peerBlock("172.16.0.0/16")}, Ports: []networkv1.NetworkPolicyPort{port(corev1.ProtocolTCP, 80), port(corev1.ProtocolUDP, 53)}}}, nil),
		"eg-ipblock@wide": np("ns1", "eg-ipblock", sel("app", "db"), tEg, nil, []networkv1.NetworkPolicyEgressRule{{To: []networkv1.NetworkPolicyPeer{peerBlock("10.9.0.0/16", "10.9.1.0/24", "10.9.2.7/32", "10.9.0.5/32"), peerBlock("172.16.0.0/16")}}}),
		// a policy that isolates its pods for egress as well although it has no egress rule, and the same object with the egress
		// type taken away: the two differ in policyTypes only
		"in-both-types":              np("ns1", "in-both-types", sel("app", "web"), tBoth, []networkv1.NetworkPolicyIngressRule{{From: []networkv1.NetworkPolicyPeer{peerPod("role", "client")}}}, nil),
		"in-both-types@ingress-only": np("ns1", "in-both-types", sel("app", "web"), tIn, []networkv1.NetworkPolicyIngressRule{{From: []networkv1.NetworkPolicyPeer{peerPod("role", "client")}}}, nil),
		"eg-implicit":                np("ns1", "eg-implicit", sel("app", "db"), nil, nil, []networkv1.NetworkPolicyEgressRule{{To: []networkv1.NetworkPolicyPeer{peerPod("app", "web")}}}),
	}
}

// pod menu
var pwPodMenu = map[string]pwPod{
	"web":          {NS: "ns1", Name: "web", Labels: map[string]string{"app": "web"}, IP: "10.0.0.2", OnNode: true},
	"db":           {NS: "ns1", Name: "db", Labels: map[string]string{"app": "db", "role": "client"}, IP: "10.0.0.3", OnNode: true},
	"cli2":         {NS: "ns2", Name: "cli2", Labels: map[string]string{"app": "web", "role": "client"}, IP: "10.0.1.2", OnNode: true},
	"web12":        {NS: "ns12", Name: "web", Labels: map[string]string{"app": "web"}, IP: "10.0.2.2", OnNode: true}, // same name as web, namespace ns12
	"cli2-off":     {NS: "ns2", Name: "cli2", Labels: map[string]string{"app": "web", "role": "client"}, IP: "10.0.1.2", OnNode: false},
	"web-new":      {NS: "ns1", Name: "web", Labels: map[string]string{"app": "web"}, IP: "10.0.0.9", OnNode: true},                      // web re-created with another IP
	"db-plain":     {NS: "ns1", Name: "db", Labels: map[string]string{"app": "db"}, IP: "10.0.0.3", OnNode: true},                        // db lost its role=client label
	"db-noip":      {NS: "ns1", Name: "db", Labels: map[string]string{"app": "db", "role": "client"}, IP: "", OnNode: true},              // db re-created under its name, not yet networked
	"cli2-pending": {NS: "ns2", Name: "cli2", Labels: map[string]string{"app": "web", "role": "client"}, IP: "", OnNode: true},           // cli2 before it is networked
	"ghost2":       {NS: "ns2", Name: "ghost", Labels: map[string]string{"app": "web", "role": "client"}, IP: "10.0.1.9", OnNode: false}, // a pod of ns2 on another node that goes away
	"bare":         {NS: "ns1", Name: "bare", Labels: nil, IP: "10.0.0.8", OnNode: true},                                                 // a pod without any label (selected by empty selectors)
	"cli-pending":  {NS: "ns1", Name: "cli", Labels: map[string]string{"role": "client"}, IP: "", OnNode: true},                          // created, not yet networked
	"cli-ready":    {NS: "ns1", Name: "cli", Labels: map[string]string{"role": "client"}, IP: "10.0.0.7", OnNode: true},                  // the same pod once it has its IP
	"noip":         {NS: "ns1", Name: "pending", Labels: map[string]string{"app": "web"}, IP: "", OnNode: true},                          // not yet networked
}

func mkCluster(pods []string, pols []string) pwCluster {
	menu := policyMenu()
	var c pwCluster
	for _, p := range pods {
		c.Pods = append(c.Pods, pwPodMenu[p])
	}
	for _, n := range pols {
		c.Policies = append(c.Policies, menu[n])
	}
	return c
}

// ---------------------------------------------------------------------------------------------
// galaxy-owned part of the kernel state

type glxState struct {
	Chains  map[string][]string // GLX chain -> rules (GLX-INGRESS / GLX-EGRESS sorted)
	Hooks   []string            // rules in built-in chains that jump to GLX chains
	Sets    map[string][]string // GLX set -> "type" + sorted entries
	Foreign string              // everything else, byte for byte
}

func glxOf(k *nfsim.Kernel) glxState {
	st := glxState{Chains: map[string][]string{}, Sets: map[string][]string{}}
	var fb strings.Builder
	for _, line := range strings.Split(k.Save("filter"), "\n") {
		f := strings.Fields(line)
		switch {
		case strings.HasPrefix(line, ":GLX-"):
			name := strings.TrimPrefix(f[0], ":")
			if _, ok := st.Chains[name]; !ok {
				st.Chains[name] = []string{}
			}
		case len(f) > 1 && f[0] == "-A" && strings.HasPrefix(f[1], "GLX-"):
			st.Chains[f[1]] = append(st.Chains[f[1]], line)
		case len(f) > 1 && f[0] == "-A" && strings.Contains(line, "-j GLX-"):
			st.Hooks = append(st.Hooks, line)
		default:
			fb.WriteString(line + "\n")
		}
	}
	sort.Strings(st.Chains["GLX-INGRESS"])
	sort.Strings(st.Chains["GLX-EGRESS"])
	// inside a pod chain the jumps to the policy chains sit between the conntrack rule and the final DROP; policy chains only
	// ACCEPT or fall through, so their relative order (= the lister's map order) carries no meaning: canonicalise it
	for n, rules := range st.Chains {
		if strings.HasPrefix(n, "GLX-POD-") && len(rules) > 3 {
			sort.Strings(rules[1 : len(rules)-1])
		}
	}
	for _, line := range strings.Split(k.SaveSets(), "\n") {
		f := strings.Fields(line)
		if len(f) < 3 {
			continue
		}
		if !strings.HasPrefix(f[1], "GLX") {
			fb.WriteString(line + "\n")
			continue
		}
		if f[0] == "create" {
			st.Sets[f[1]] = append(st.Sets[f[1]], "type "+f[2])
		} else {
			st.Sets[f[1]] = append(st.Sets[f[1]], strings.Join(f[2:], " "))
		}
	}
	fb.WriteString(k.Save("nat"))
	st.Foreign = fb.String()
	return st
}

func (s glxState) String() string {
	var b strings.Builder
	var names []string
	for n := range s.Chains {
		names = append(names, n)
	}
	sort.Strings(names)
	for _, n := range names {
		fmt.Fprintf(&b, "chain %s: %s\n", n, strings.Join(s.Chains[n], " | "))
	}
	fmt.Fprintf(&b, "hooks: %s\n", strings.Join(s.Hooks, " | "))
	names = nil
	for n := range s.Sets {
		names = append(names, n)
	}
	sort.Strings(names)
	for _, n := range names {
		fmt.Fprintf(&b, "set %s: %s\n", n, strings.Join(s.Sets[n], ","))
	}
	return b.String()
}

// seedFilter installs prior kernel contents that do not belong to galaxy, and optionally stale galaxy objects.
func seedFilter(k *nfsim.Kernel, prior string) {
	ipt := func(args ...string) {
		if _, err := k.Run("iptables", args, nil); err != nil {
			panic(fmt.Sprintf("seed %v: %v", args, err))
		}
	}
	ips := func(args ...string) {
		if _, err := k.Run("ipset", args, nil); err != nil {
			panic(fmt.Sprintf("seed %v: %v", args, err))
		}
	}
	switch prior {
	case "empty":
	case "foreign":
		ipt("-N", "KUBE-FORWARD")
		ipt("-A", "KUBE-FORWARD", "-m", "conntrack", "--ctstate", "INVALID", "-j", "DROP")
		ipt("-A", "FORWARD", "-m", "comment", "--comment", "kubernetes forwarding rules", "-j", "KUBE-FORWARD")
		ipt("-A", "INPUT", "-s", "192.168.0.0/16", "-j", "ACCEPT")
		ipt("-N", "GLXX-NOT-OURS")
		ips("create", "KUBE-CLUSTER-IP", "hash:ip", "-exist")
		ips("add", "KUBE-CLUSTER-IP", "10.96.0.1")
		ips("create", "OTHER-net", "hash:net")
		ips("add", "OTHER-net", "10.200.0.0/16")
		ipt("-A", "KUBE-FORWARD", "-m", "set", "--match-set", "OTHER-net", "src", "-j", "ACCEPT")
	case "stale":
		// objects of a policy and of a pod that no longer exist (galaxy was down when they went away)
		ips("create", "GLX-ip-STALESTALESTALE01", "hash:ip")
		ips("add", "GLX-ip-STALESTALESTALE01", "10.0.0.77")
		ips("create", "GLX-sip-0-STALESTALESTALE01", "hash:ip")
		ipt("-N", "GLX-PLCY-STALESTALESTALE1")
		ipt("-A", "GLX-PLCY-STALESTALESTALE1", "-m", "comment", "--comment", "gone_ns1", "-m", "set", "--match-set", "GLX-sip-0-STALESTALESTALE01", "src", "-m", "set", "--match-set", "GLX-ip-STALESTALESTALE01", "dst", "-j", "ACCEPT")
	}
	k.Cmds, k.Rejected = nil, nil
}
