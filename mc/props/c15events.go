package props

import (
	"fmt"
	"reflect"
	"strings"
	"time"

	networkv1 "k8s.io/api/networking/v1"

	"verif.local/mc/nfsim"
)

// C15, event mode: the informer event sequence that turns cluster state `before` into `after`, in every order. The listers are
// updated with an object before its handler runs (as a shared informer does). Policy event handlers perform a full
// synchronisation, so after each of them the galaxy-owned kernel state must equal a fresh sync of the cluster as it is at
// that moment; after all events one Run() must yield the fresh sync of `after`, and a second Run() must change nothing.

type c15Event struct {
	Kind     string // pod-update, pod-delete, policy-add, policy-update, policy-delete
	Pod, Old pwPod
	NP, OldP *networkv1.NetworkPolicy
}

func (e c15Event) String() string {
	switch e.Kind {
	case "pod-update", "pod-delete", "pod-recreate":
		return fmt.Sprintf("%s(%s/%s ip=%q)", e.Kind, e.Pod.NS, e.Pod.Name, e.Pod.IP)
	}
	return fmt.Sprintf("%s(%s)", e.Kind, e.NP.Name)
}

func c15EventDiff(b, a pwCluster) []c15Event {
	var evs []c15Event
	key := func(p pwPod) string { return p.NS + "/" + p.Name }
	bm, am := map[string]pwPod{}, map[string]pwPod{}
	for _, p := range b.Pods {
		bm[key(p)] = p
	}
	for _, p := range a.Pods {
		am[key(p)] = p
	}
	for _, p := range b.Pods {
		if q, ok := am[key(p)]; !ok {
			evs = append(evs, c15Event{Kind: "pod-delete", Pod: p})
		} else if p.IP != q.IP && p.IP != "" {
			// a pod never changes its address in place: the old incarnation is deleted and a new one appears
			evs = append(evs, c15Event{Kind: "pod-recreate", Pod: q, Old: p})
		} else if !reflect.DeepEqual(p, q) {
			evs = append(evs, c15Event{Kind: "pod-update", Pod: q, Old: p})
		}
	}
	for _, p := range a.Pods {
		if _, ok := bm[key(p)]; !ok {
			evs = append(evs, c15Event{Kind: "pod-update", Pod: p, Old: p})
		}
	}
	bp, ap := map[string]*networkv1.NetworkPolicy{}, map[string]*networkv1.NetworkPolicy{}
	for _, p := range b.Policies {
		bp[p.Namespace+"/"+p.Name] = p
	}
	for _, p := range a.Policies {
		ap[p.Namespace+"/"+p.Name] = p
	}
	for _, p := range b.Policies {
		if q, ok := ap[p.Namespace+"/"+p.Name]; !ok {
			evs = append(evs, c15Event{Kind: "policy-delete", NP: p})
		} else if !reflect.DeepEqual(p.Spec, q.Spec) {
			evs = append(evs, c15Event{Kind: "policy-update", NP: q, OldP: p})
		}
	}
	for _, p := range a.Policies {
		if _, ok := bp[p.Namespace+"/"+p.Name]; !ok {
			evs = append(evs, c15Event{Kind: "policy-add", NP: p})
		}
	}
	return evs
}

func permutations(n int) [][]int {
	var out [][]int
	var rec func(cur []int, used []bool)
	rec = func(cur []int, used []bool) {
		if len(cur) == n {
			out = append(out, append([]int{}, cur...))
			return
		}
		for i := 0; i < n; i++ {
			if !used[i] {
				used[i] = true
				rec(append(cur, i), used)
				used[i] = false
			}
		}
	}
	rec(nil, make([]bool, n))
	return out
}

// applyEvent updates the cluster (and the listers) and calls the handler.
func applyEvent(w *policyWorld, cur *pwCluster, e c15Event) {
	switch e.Kind {
	case "pod-recreate":
		applyEvent(w, cur, c15Event{Kind: "pod-delete", Pod: e.Old})
		applyEvent(w, cur, c15Event{Kind: "pod-update", Pod: e.Pod, Old: e.Pod})
	case "pod-update":
		replaced := false
		for i := range cur.Pods {
			if cur.Pods[i].NS == e.Pod.NS && cur.Pods[i].Name == e.Pod.Name {
				cur.Pods[i] = e.Pod
				replaced = true
			}
		}
		if !replaced {
			cur.Pods = append(cur.Pods, e.Pod)
		}
		w.setCluster(*cur)
		_ = w.pm.UpdatePod(w.podObj(e.Old), w.podObj(e.Pod))
	case "pod-delete":
		var rest []pwPod
		for _, p := range cur.Pods {
			if !(p.NS == e.Pod.NS && p.Name == e.Pod.Name) {
				rest = append(rest, p)
			}
		}
		cur.Pods = rest
		w.setCluster(*cur)
		_ = w.pm.DeletePod(w.podObj(e.Pod))
	case "policy-add", "policy-update", "policy-delete":
		var rest []*networkv1.NetworkPolicy
		for _, p := range cur.Policies {
			if !(p.Namespace == e.NP.Namespace && p.Name == e.NP.Name) {
				rest = append(rest, p)
			}
		}
		if e.Kind != "policy-delete" {
			rest = append(rest, e.NP)
		}
		cur.Policies = rest
		w.setCluster(*cur)
		switch e.Kind {
		case "policy-add":
			_ = w.pm.AddPolicy(e.NP)
		case "policy-update":
			_ = w.pm.UpdatePolicy(e.OldP, e.NP)
		default:
			_ = w.pm.DeletePolicy(e.NP)
		}
	}
}

func freshState(c pwCluster) glxState {
	k := nfsim.New()
	w := newPolicyWorld(k)
	w.setCluster(c)
	w.pm.Run()
	return glxOf(k)
}

func c15EventStates(tier string) []c15State {
	podSets := [][]string{{"web", "db", "cli2"}, {"web", "db", "cli2", "cli-pending"}, {"web", "db", "cli2", "cli-ready"}, {"web-new", "db", "cli2"}, {"web", "db-plain", "cli2"}, {"web", "db"}}
	pols := []string{"in-podsel", "in-ipblock", "eg-podsel-port", "in-two-peers", "in-denyall", "in-ipblock@wide", "in-both-types", "in-both-types@ingress-only"}
	if tier == "thorough" {
		pols = append(pols, "both", "in-nssel-port", "eg-ipblock", "eg-ipblock@wide")
	}
	var polSets [][]string
	polSets = append(polSets, []string{})
	for i := range pols {
		polSets = append(polSets, []string{pols[i]})
		for j := i + 1; j < len(pols); j++ {
			if strings.SplitN(pols[i], "@", 2)[0] == strings.SplitN(pols[j], "@", 2)[0] {
				continue // two versions of the same object cannot coexist
			}
			polSets = append(polSets, []string{pols[i], pols[j]})
		}
	}
	var out []c15State
	for _, ps := range podSets {
		for _, pl := range polSets {
			out = append(out, c15State{Name: fmt.Sprintf("pods=%v policies=%v", ps, pl), C: mkCluster(ps, pl), Pods: ps})
		}
	}
	// a rule without peers in front of a rule with a selector peer (the rule's index in the policy and the position of what was
	// compiled for it differ as soon as anything is left out), over every pod set
	for _, ps := range podSets {
		for _, pl := range [][]string{{"in-ports-then-podsel"}, {"in-ports-then-podsel", "in-podsel"}} {
			out = append(out, c15State{Name: fmt.Sprintf("pods=%v policies=%v", ps, pl), C: mkCluster(ps, pl), Pods: ps})
		}
	}
	// two pods of one name in namespaces ns1 and ns12 (what identifies a pod's rules must not be a prefix of another pod's)
	for _, pl := range [][]string{{}, {"in-ns12"}, {"in-ns12", "in-podsel"}} {
		ps := []string{"web", "db", "web12"}
		out = append(out, c15State{Name: fmt.Sprintf("pods=%v policies=%v", ps, pl), C: mkCluster(ps, pl), Pods: ps})
	}
	return out
}

func c15EventJob(shard, nshards int, tier string) Job {
	name := fmt.Sprintf("event-sequences/shard%d", shard)
	return Job{Name: name, Weight: 3, Run: func(deadline time.Time) *ScenResult {
		t0 := time.Now()
		r := newCaseResult()
		states := c15EventStates(tier)
		maxEvents := 3
		n, transitions := 0, 0
		finish := func() *ScenResult {
			sr := r.toScen(name, t0, map[string]int{"states": len(states), "max_events": maxEvents})
			sr.States, sr.Transitions, sr.MaxDepth = len(r.distinct), transitions, maxEvents+2
			return sr
		}
		for bi := range states {
			for ai := range states {
				if bi == ai {
					continue
				}
				evs := c15EventDiff(states[bi].C, states[ai].C)
				if len(evs) == 0 || len(evs) > maxEvents {
					continue
				}
				for _, perm := range permutations(len(evs)) {
					n++
					if n%nshards != shard {
						continue
					}
					if time.Now().After(deadline) {
						r.exhausted = false
						return finish()
					}
					k := nfsim.New()
					w := newPolicyWorld(k)
					cur := pwCluster{Pods: append([]pwPod{}, states[bi].C.Pods...), Policies: append([]*networkv1.NetworkPolicy{}, states[bi].C.Policies...)}
					w.setCluster(cur)
					w.pm.Run()
					var order []string
					for _, i := range perm {
						order = append(order, evs[i].String())
					}
					desc := fmt.Sprintf("before: %s\n    after:  %s\n    events: %v", states[bi].Name, states[ai].Name, order)
					r.evals++
					ok := true
					for step, i := range perm {
						k.Cmds, k.Rejected = nil, nil
						applyEvent(w, &cur, evs[i])
						transitions++
						for _, x := range k.Rejected {
							if benignPolicyReject(x) || (strings.Contains(x, "ipset destroy") && strings.Contains(x, "in use")) || strings.Contains(x, " -D GLX-") {
								continue
							}
							if strings.Contains(x, "iptables-restore") {
								r.violate("C15", name, "events", "kernel-rejected-a-batch", rejectKind(x), fmt.Sprintf("%s\n    at event %d: %s", desc, step, x), []string{desc})
								ok = false
							}
						}
						if strings.HasPrefix(evs[i].Kind, "policy-") {
							// a policy event handler is a full synchronisation
							ips := map[string]bool{}
							for _, p := range cur.Pods {
								ips[p.IP] = true
							}
							d := c15Compare(glxOf(k), freshState(cur), livePodChainNames(cur), ips)
							if len(d.other) > 0 || len(d.staleReferencedPolicyChains) > 0 {
								r.violate("C15", name, "events", "state-after-policy-event-differs-from-fresh-sync", evs[i].Kind,
									fmt.Sprintf("%s\n    after event %d (%s):\n    %s %v", desc, step, evs[i], strings.Join(d.other, "\n    "), d.staleReferencedPolicyChains), []string{desc})
								ok = false
							}
						}
					}
					if !ok {
						continue
					}
					w.pm.Run()
					transitions++
					s1 := glxOf(k)
					ips := map[string]bool{}
					for _, p := range cur.Pods {
						ips[p.IP] = true
					}
					d := c15Compare(s1, freshState(states[ai].C), livePodChainNames(states[ai].C), ips)
					r.distinct[hashOf(bi, ai, perm, s1.String())] = true
					if len(r.samples) < 3 && r.evals%173 == 1 {
						r.samples = append(r.samples, desc)
					}
					if len(d.other) > 0 || len(d.staleReferencedPolicyChains) > 0 {
						r.violate("C15", name, "events", "state-after-events-and-sync-differs-from-fresh-sync", "Run",
							fmt.Sprintf("%s\n    %s %v", desc, strings.Join(d.other, "\n    "), d.staleReferencedPolicyChains), []string{desc})
						continue
					}
					if len(d.stalePodChainsOfGonePods) > 0 {
						r.violate("C15", name, "", "pod-chain-of-vanished-pod-never-removed", "events", fmt.Sprintf("%s\n    %v", desc, d.stalePodChainsOfGonePods), []string{desc})
					}
					if len(d.staleJumpsOfFormerIPs) > 0 {
						r.violate("C15", name, "", "jump-rule-of-former-pod-ip-never-removed", "events", fmt.Sprintf("%s\n    %v", desc, d.staleJumpsOfFormerIPs), []string{desc})
					}
					w.pm.Run()
					transitions++
					if s2 := glxOf(k); s2.String() != s1.String() {
						r.violate("C15", name, "events", "second-sync-changes-state", "Run", fmt.Sprintf("%s\n  first:\n%s  second:\n%s", desc, s1.String(), s2.String()), []string{desc})
					}
				}
			}
		}
		return finish()
	}}
}
