package props

import (
	"fmt"
	"strings"
	"time"

	"github.com/containernetworking/cni/pkg/skel"
	t020 "github.com/containernetworking/cni/pkg/types/020"
	cniipam "tkestack.io/galaxy/cni/ipam"

	"verif.local/mc/world"
)

// c13NoRangeJob: several pools with different settings serve ONE node subnet and the pods request no range, so the
// allocator picks the address (the plain AllocateInSubnet path). k pods drain the k one-address pools; whichever address a
// pod gets, its plugin must see the settings of the pool that address was configured in.
func c13NoRangeJob(tier string) Job {
	name := "ipam-to-plugin/no-requested-range"
	return Job{Name: name, Weight: 1, Run: func(deadline time.Time) *ScenResult {
		t0 := time.Now()
		r := newCaseResult()
		h, err := newCNIHarness(daemonConf{Defaults: []string{"a"}})
		if err != nil {
			panic(err)
		}
		defer h.close()
		n := 0
		for ci, cs := range c13Cases(tier) {
			if len(cs) < 2 {
				continue
			}
			if time.Now().After(deadline) {
				r.exhausted = false
				break
			}
			var pools []string
			exp := map[string]string{}
			for _, s := range cs {
				pj, ip, gw, ml, vl := s.pool()
				pools = append(pools, pj)
				exp[ip] = fmt.Sprintf("%s/%d gw %s vlan %d", ip, ml, gw, vl)
			}
			desc := fmt.Sprintf("pools [%s], %d pods without requested ranges", strings.Join(pools, ","), len(cs))
			w := world.New(world.Config{Pools: "[" + strings.Join(pools, ",") + "]", Nodes: nodesN1})
			if err := w.Start(); err != nil {
				r.violate("C13", name, "setup", "configuration-rejected", "ConfigurePool", desc+": "+err.Error(), []string{desc})
				continue
			}
			w.SetStatefulSet("ns", "a", len(cs))
			seen := map[string]bool{}
			for i := range cs {
				spec := world.PodSpec{Name: fmt.Sprintf("a-%d", i), NS: "ns", OwnerKind: "StatefulSet", OwnerName: "a"}
				w.CreatePod(spec)
				r.evals++
				before := len(w.Bindings)
				if _, err := w.Schedule(spec.Key()); err != nil || len(w.Bindings) != before+1 {
					r.violate("C13", name, "bind", "bind-failed", "Bind", fmt.Sprintf("%s: pod %s: %v", desc, spec.Name, err), []string{desc})
					break
				}
				b := w.Bindings[len(w.Bindings)-1]
				if len(b.IPs) != 1 || exp[b.IPs[0]] == "" || seen[b.IPs[0]] {
					r.violate("C13", name, "bind", "wrong-number-of-ips-in-annotation", "Bind", fmt.Sprintf("%s: pod %s: %v", desc, spec.Name, b.IPs), []string{desc})
					break
				}
				seen[b.IPs[0]] = true
				h.reset()
				h.putPod(cniPod{Name: spec.Name, Networks: "a", ExtendedArg: b.Anno})
				n++
				code, body := h.request("ADD", fmt.Sprintf("n%d-%d", ci, i), spec.Name, "eth0")
				inv := h.invocations()
				if code != 200 || len(inv) != 1 {
					r.violate("C13", name, "daemon", "daemon-add-failed", "ADD", fmt.Sprintf("%s: HTTP %d %s, %d invocations", desc, code, body, len(inv)), []string{desc})
					break
				}
				vlans, results, err := cniipam.Allocate("", &skel.CmdArgs{Args: inv[0].RawArgs})
				if err != nil || len(results) != 1 || len(vlans) != 1 {
					r.violate("C13", name, "plugin", "plugin-decoder-failed-or-count-differs", "Allocate", fmt.Sprintf("%s: CNI_ARGS %q -> %d results, err %v", desc, inv[0].RawArgs, len(results), err), []string{desc})
					break
				}
				res, ok := results[0].(*t020.Result)
				if !ok || res.IP4 == nil {
					r.violate("C13", name, "plugin", "plugin-result-not-ipv4", "Allocate", desc, []string{desc})
					break
				}
				ones, _ := res.IP4.IP.Mask.Size()
				got := fmt.Sprintf("%s/%d gw %s vlan %d", res.IP4.IP.IP.String(), ones, res.IP4.Gateway.String(), vlans[0])
				r.distinct[hashOf(desc, i, got)] = true
				if len(r.samples) < 3 && r.evals%31 == 1 {
					r.samples = append(r.samples, fmt.Sprintf("%s: pod %s -> %s", desc, spec.Name, got))
				}
				if got != exp[b.IPs[0]] {
					r.violate("C13", name, fmt.Sprintf("k=%d", len(cs)), "plugin-sees-different-ip-settings", "pipeline",
						fmt.Sprintf("%s: pod %s got %s, configured as [%s], the plugin's decoder yields [%s] (annotation %s)", desc, spec.Name, b.IPs[0], exp[b.IPs[0]], got, b.Anno), []string{desc})
				}
			}
		}
		return r.toScen(name, t0, map[string]int{"adds": n})
	}}
}
