package props

import (
	"fmt"
	"strings"
	"time"

	"github.com/containernetworking/cni/pkg/skel"
	t020 "github.com/containernetworking/cni/pkg/types/020"
	cniipam "tkestack.io/galaxy/cni/ipam"

	"verif.local/mc/world"
)

// C13 across a configuration reload: a first pod is bound under configuration A, the configuration is replaced by B (the
// pool's own mask / gateway / VLAN changed, or a pool added in front of it), then a second pod is bound and taken through the
// same pipeline. What the plugin decodes for the second pod must be B's settings of its pool.
func c13ReloadJob(tier string) Job {
	name := "ipam-to-plugin/after-reload"
	return Job{Name: name, Weight: 2, Run: func(deadline time.Time) *ScenResult {
		t0 := time.Now()
		r := newCaseResult()
		h, err := newCNIHarness(daemonConf{Defaults: []string{"a"}})
		if err != nil {
			panic(err)
		}
		defer h.close()
		menu := []c13Setting{{MaskLen: 24, Vlan: 0}, {MaskLen: 24, Vlan: 2}, {MaskLen: 16, GwLast: true, Vlan: 4094}, {MaskLen: 8, Vlan: 65535}, {MaskLen: 30, GwLast: true, Vlan: 0}, {MaskLen: 32, Vlan: 1}}
		n := 0
		for i := range menu {
			for j := range menu {
				for _, mode := range []string{"pool-changed", "pool-added-in-front", "pool-changed/same-identity"} {
					if mode != "pool-added-in-front" && i == j {
						continue
					}
					if time.Now().After(deadline) {
						r.exhausted = false
						return r.toScen(name, t0, nil)
					}
					n++
					s1, s2 := menu[i], menu[j]
					s1.Octet = 21
					var cfgB []string
					p1, ip1, _, _, _ := s1.pool()
					if mode != "pool-added-in-front" {
						s2.Octet = 21
					} else {
						s2.Octet = 20
					}
					p2, ip2, gw2, ml2, vl2 := s2.pool()
					if mode != "pool-added-in-front" {
						cfgB = []string{p2}
					} else {
						cfgB = []string{p2, p1}
					}
					if mode == "pool-changed/same-identity" && ip1 != ip2 {
						continue // the identity keeps its address only if the new settings still contain it
					}
					desc := fmt.Sprintf("%s: configuration [%s], pod a-0 bound, then configuration [%s], pod a-1 requesting %s", mode, p1, strings.Join(cfgB, ","), ip2)
					w := world.New(world.Config{Pools: "[" + p1 + "]", Nodes: nodesN1})
					if err := w.Start(); err != nil {
						r.violate("C13", name, "setup", "configuration-rejected", "ConfigurePool", desc+": "+err.Error(), []string{desc})
						continue
					}
					w.SetStatefulSet("ns", "a", 2)
					first := world.PodSpec{Name: "a-0", NS: "ns", OwnerKind: "StatefulSet", OwnerName: "a", Ranges: `[["` + ip1 + `"]]`}
					if mode == "pool-changed/same-identity" {
						first.Policy = "never" // the address stays with the identity a-0 across the pod's re-creation
					}
					w.CreatePod(first)
					r.evals++
					if _, err := w.Schedule(first.Key()); err != nil {
						r.violate("C13", name, "bind", "bind-failed", "Bind", fmt.Sprintf("%s: first pod: %v", desc, err), []string{desc})
						continue
					}
					w.ConfigMap = "[" + strings.Join(cfgB, ",") + "]"
					if err := w.Reload(); err != nil {
						r.violate("C13", name, "setup", "configuration-rejected", "ConfigurePool", desc+": reload: "+err.Error(), []string{desc})
						continue
					}
					if mode != "pool-added-in-front" && ip1 == ip2 {
						// the first pod keeps the (still configured) address; the second pod is its next incarnation
						w.DeletePod(first.Key())
						for len(w.Pending) > 0 {
							w.Deliver(0)
						}
					}
					second := world.PodSpec{Name: "a-1", NS: "ns", OwnerKind: "StatefulSet", OwnerName: "a", Ranges: `[["` + ip2 + `"]]`}
					if mode == "pool-changed/same-identity" {
						second = first // the next incarnation of a-0 takes the address reserved for it
					}
					w.CreatePod(second)
					nb := len(w.Bindings)
					if _, err := w.Schedule(second.Key()); err != nil || len(w.Bindings) != nb+1 {
						r.violate("C13", name, "bind", "bind-failed", "Bind", fmt.Sprintf("%s: second pod: %v", desc, err), []string{desc})
						continue
					}
					b := w.Bindings[len(w.Bindings)-1]
					h.reset()
					h.putPod(cniPod{Name: second.Name, Networks: "a", ExtendedArg: b.Anno})
					code, body := h.request("ADD", fmt.Sprintf("r%d", n), second.Name, "eth0")
					inv := h.invocations()
					if code != 200 || len(inv) != 1 {
						r.violate("C13", name, "daemon", "daemon-add-failed", "ADD", fmt.Sprintf("%s: HTTP %d %s, %d invocations", desc, code, body, len(inv)), []string{desc})
						continue
					}
					vlans, results, err := cniipam.Allocate("", &skel.CmdArgs{Args: inv[0].RawArgs})
					r.distinct[hashOf(desc)] = true
					if err != nil || len(results) != 1 || len(vlans) != 1 {
						r.violate("C13", name, "plugin", "plugin-decoder-failed-or-count-differs", "Allocate", fmt.Sprintf("%s: CNI_ARGS %q -> %d results, err %v", desc, inv[0].RawArgs, len(results), err), []string{desc})
						continue
					}
					res, ok := results[0].(*t020.Result)
					if !ok || res.IP4 == nil {
						r.violate("C13", name, "plugin", "plugin-result-not-ipv4", "Allocate", desc, []string{desc})
						continue
					}
					ones, _ := res.IP4.IP.Mask.Size()
					got := fmt.Sprintf("%s/%d gw %s vlan %d", res.IP4.IP.IP.String(), ones, res.IP4.Gateway.String(), vlans[0])
					exp := fmt.Sprintf("%s/%d gw %s vlan %d", ip2, ml2, gw2, vl2)
					if got != exp {
						r.violate("C13", name, "after-reload", "plugin-sees-different-ip-settings", "pipeline",
							fmt.Sprintf("%s: the configuration in force says [%s], the plugin's decoder yields [%s] (annotation %s)", desc, exp, got, b.Anno), []string{desc})
					}
				}
			}
		}
		return r.toScen(name, t0, map[string]int{"cases": n})
	}}
}
