package props

import (
	"fmt"
	"sort"
	"strings"
	"time"

	"verif.local/mc/coop/vwait"
)

// C14, daemon side, start-up synchronisation: pods are set up by ADD requests (the daemon writes their rules, opens
// their ports and — for pods with the port-mapping annotation — records the ports in the annotation); then galaxy
// "restarts": its sockets are gone, the NAT table is kept, emptied, or holds in addition the chains of a pod that went
// away meanwhile; the real setupIPtables runs over the pods of the API server (listed in name order, the roles take
// every assignment to the names). Differential oracle: the NAT table after the synchronisation is, rule for rule, the
// table the ADDs had produced; every port is held again; tearing everything down leaves the basic rules.
func c14DaemonRestartJob(base int32) Job {
	name := "daemon-restart-sync"
	return Job{Name: name, Weight: 2, Run: func(deadline time.Time) *ScenResult {
		t0 := time.Now()
		r := newCaseResult()
		h, err := newCNIHarness(daemonConf{Defaults: []string{"a"}})
		if err != nil {
			panic(err)
		}
		defer h.close()
		type role struct {
			tag string
			pod cniPod
		}
		roles := []role{
			{"hostip", cniPod{HostPort: base + 5, HostIP: "10.1.1.1"}},
			{"plain", cniPod{HostPort: base + 6}},
			{"two-ports", cniPod{HostPort: base + 7, HostPort2: base + 8, HostIP2: "10.1.1.2"}},
		}
		names := []string{"hp-a", "hp-b", "hp-c"}
		lines := func() []string {
			var out []string
			for _, l := range strings.Split(h.kern.Save("nat"), "\n") {
				if strings.HasPrefix(l, "-A ") || (strings.HasPrefix(l, ":") && strings.Contains(l, "KUBE-HP-")) {
					if i := strings.Index(l, " ["); i > 0 && strings.HasPrefix(l, ":") {
						l = l[:i]
					}
					out = append(out, l)
				}
			}
			sort.Strings(out)
			return out
		}
		h.reset()
		h.putPod(cniPod{Name: "hp-warm", Networks: "a", HostPort: base + 10})
		h.request("ADD", "warm", "hp-warm", "eth0")
		h.request("DEL", "warm", "hp-warm", "eth0")
		h.deletePodObject("hp-warm")
		basic := strings.Join(lines(), "\n")
		states, transitions := 0, 0
		for _, annotated := range []bool{false, true} {
			for _, perm := range permutations(len(roles)) {
				for mask := 1; mask < 1<<uint(len(roles)); mask++ {
					for _, table := range []string{"kept", "emptied", "stale-pod"} {
						if time.Now().After(deadline) {
							r.exhausted = false
							goto done
						}
						h.reset()
						for _, n := range append(append([]string{}, names...), "hp-gone") {
							h.deletePodObject(n)
						}
						var pods []string
						var what []string
						for i, ri := range perm {
							if mask&(1<<uint(i)) == 0 {
								continue
							}
							p := roles[ri].pod
							p.Name, p.Networks, p.PortMapOn = names[i], "a", annotated
							h.putPod(p)
							pods = append(pods, names[i])
							what = append(what, names[i]+"="+roles[ri].tag)
						}
						desc := fmt.Sprintf("pods %v annotation=%v, NAT table %s at restart", what, annotated, table)
						okAdd := true
						for _, n := range pods {
							if code, body := h.request("ADD", "c-"+n, n, "eth0"); code != 200 {
								r.violate("C14", name, "daemon", "add-fails-although-port-free", "ADD", fmt.Sprintf("%s: ADD %s: %d %s", desc, n, code, firstLines(body, 1)), []string{desc})
								okAdd = false
							}
							h.setPodIP(n, "10.77.0.2")
							transitions++
						}
						if !okAdd {
							continue
						}
						want := lines()
						wantPorts := append([]string{}, h.pmh.VerifOpenPorts()...)
						sort.Strings(wantPorts)
						if table == "stale-pod" {
							// a pod that was set up and went away while galaxy was down
							h.putPod(cniPod{Name: "hp-gone", Networks: "a", HostPort: base + 9, HostIP: "10.1.1.3", PortMapOn: annotated})
							h.request("ADD", "c-gone", "hp-gone", "eth0")
							h.deletePodObject("hp-gone")
						}
						// the restart: no sockets, the table as the variant says
						for _, o := range h.pmh.VerifOpenPorts() {
							h.pmh.CloseHostports(strings.SplitN(o, " ", 2)[0])
						}
						if table == "emptied" {
							h.kern.ClearTable("nat")
						}
						vwait.InlineUntil = true
						err := h.g.VerifSetupIPtables()
						vwait.InlineUntil = false
						transitions++
						if err != nil {
							r.violate("C14", name, "daemon", "start-up-sync-fails", "setupIPtables", desc+": "+err.Error(), []string{desc})
							continue
						}
						got := lines()
						if strings.Join(got, "\n") != strings.Join(want, "\n") {
							r.violate("C14", name, "daemon", "rules-after-start-up-sync-differ-from-the-rules-of-the-set-ups", "setupIPtables",
								fmt.Sprintf("%s:\n    missing: %v\n    unexpected: %v", desc, minus(want, got), minus(got, want)), []string{desc})
						}
						gotPorts := append([]string{}, h.pmh.VerifOpenPorts()...)
						sort.Strings(gotPorts)
						if fmt.Sprint(gotPorts) != fmt.Sprint(wantPorts) {
							r.violate("C14", name, "daemon", "ports-held-after-start-up-sync-differ", "setupIPtables", fmt.Sprintf("%s: held %v, want %v", desc, gotPorts, wantPorts), []string{desc})
						}
						// tear-down after the restart
						for _, n := range pods {
							if code, body := h.request("DEL", "c-"+n, n, "eth0"); code != 200 {
								r.violate("C14", name, "daemon", "del-fails", "DEL", fmt.Sprintf("%s: DEL %s: %d %s", desc, n, code, firstLines(body, 1)), []string{desc})
							}
							transitions++
						}
						h.request("DEL", "c-gone", "hp-gone", "eth0")
						if nat := strings.Join(lines(), "\n"); nat != basic {
							r.violate("C14", name, "daemon", "nat-table-differs-from-basic-rules-after-teardown", "DEL", fmt.Sprintf("%s, then DEL of every container:\n    left: %v", desc, minus(strings.Split(nat, "\n"), strings.Split(basic, "\n"))), []string{desc})
						}
						if o := h.pmh.VerifOpenPorts(); len(o) > 0 {
							r.violate("C14", name, "daemon", "ports-leaked-after-teardown", "DEL", fmt.Sprintf("%s: %v", desc, o), []string{desc})
						}
						r.evals++
						states++
						r.distinct[hashOf(desc, strings.Join(got, "\n"))] = true
						if len(r.samples) < 3 && r.evals%37 == 1 {
							r.samples = append(r.samples, desc)
						}
					}
				}
			}
		}
	done:
		sr := r.toScen(name, t0, map[string]int{"roles": len(roles), "tables": 3})
		sr.States, sr.Transitions = states, transitions
		return sr
	}}
}

func minus(a, b []string) []string {
	in := map[string]bool{}
	for _, x := range b {
		in[x] = true
	}
	var out []string
	for _, x := range a {
		if !in[x] {
			out = append(out, x)
		}
	}
	return out
}
