package props

import (
	"strings"

	"verif.local/mc/coop"
)

func boundsFor(tier string) map[string]int {
	if tier == "thorough" {
		return map[string]int{"preempt": 3, "fault": 1, "rot": 1}
	}
	return map[string]int{"preempt": 2, "fault": 0, "rot": 0}
}

func withFault(b map[string]int) map[string]int {
	o := map[string]int{}
	for k, v := range b {
		o[k] = v
	}
	o["fault"] = 1
	if o["preempt"] > 1 {
		o["preempt"]--
	}
	return o
}

func ipamConcurrentScenarios(tier string, cloud bool) []*Scenario {
	return ipamConcurrentScenariosB(tier, cloud, boundsFor(tier))
}

func ipamConcurrentScenariosB(tier string, cloud bool, b map[string]int) []*Scenario {
	var sc []*Scenario
	sc = append(sc, famRecreate(cloud, b, "")...)
	sc = append(sc, famContend(cloud, b)...)
	sc = append(sc, famRolling(cloud, b)...)
	sc = append(sc, famAPIRelease(cloud, b)...)
	// the same families with one injected API fault (one preemption less)
	fb := withFault(b)
	for _, s := range famRecreate(cloud, fb, "") {
		s.Name += "+fault"
		sc = append(sc, s)
	}
	for _, s := range famRolling(cloud, fb) {
		s.Name += "+fault"
		sc = append(sc, s)
	}
	for _, s := range famContend(cloud, fb) {
		s.Name += "+fault"
		sc = append(sc, s)
	}
	// recreate + a third party competing for the address (needed to turn a wrong release into a double hand-out)
	ob := map[string]int{}
	for k, v := range b {
		ob[k] = v
	}
	if tier != "thorough" {
		ob["preempt"] = 2
	}
	for _, s := range famRecreate(cloud, ob, "other") {
		if strings.Contains(s.Name, "finish+delete") && tier != "thorough" {
			continue
		}
		s.Weight = 6
		sc = append(sc, s)
	}
	for _, s := range famRecreate(cloud, b, "split") {
		if strings.Contains(s.Name, "finish+delete") {
			sc = append(sc, s)
		}
	}
	sc = append(sc, famLateRunningEvent(cloud, b)...)
	// lagging informer cache (one preemption less: four threads)
	lb := map[string]int{}
	for k, v := range b {
		lb[k] = v
	}
	if lb["preempt"] > 1 {
		lb["preempt"]--
	}
	sc = append(sc, famLag(cloud, lb)...)
	sc = append(sc, famRestartOverlap(cloud, b)...)
	if tier == "thorough" {
		sc = append(sc, famRecreate(cloud, b, "syncpodips")...)
		sc = append(sc, famRecreate(cloud, b, "run-new")...)
	}
	return sc
}

func exploreProperty(id, level, rule string, assume []string, cloud bool, oracle Oracle, quickS, thoroughS int) {
	scens := func(tier string) []*Scenario {
		if id == "C10" {
			return c10Scenarios(tier)
		}
		return ipamConcurrentScenarios(tier, cloud)
	}
	register(&Property{ID: id, Level: level, Rule: rule, Assume: assume, QuickS: quickS, ThoroughS: thoroughS,
		Jobs: func(tier string) []Job {
			var jobs []Job
			for _, sc := range scens(tier) {
				jobs = append(jobs, ExploreJob(id, sc, oracle))
			}
			return append(jobs, ipamHistJobs(id, cloud, oracle, tier)...)
		}})
	replayers[id] = func(tier string, v coop.Violation) int {
		if len(v.Ops) > 0 {
			return replayIpamHist(id, cloud, oracle, v)
		}
		return replayExplore(id, scens(tier), oracle, v)
	}
}

const ruleExplore = "(a) explicit-state BFS over sequential operation histories (create, schedule on the first / last offered node, delete, finish, deliver / drop an event, resync, scale, delete-app, API release; with a provider also a " +
	"scheduling attempt and an event delivery during which one provider call fails) per workload x policy class incl. two-IP pods, from the initial state and from three non-initial states, the oracle on every state; (b) stateless DFS over all schedules of the scenario's managed threads (scheduling points: lock acquisitions, API-server calls, " +
	"provider calls, retries) within the deviation bounds in `bounds` (preemptions, injected API faults, map-order rotations); one evaluation = one complete " +
	"execution of the real code with the oracle evaluated at every scheduling point; distinct = distinct hashes of (IPAM tables, FloatingIP objects, " +
	"binding log, provider log) at the end; non-trivial = at least two different threads wrote to the store / bound a pod / called the provider"

var assumeIPAM = []string{
	"API server, informer caches, kube-scheduler and cloud provider are the harness's model (world package): linearizable objects, errors without effect",
	"interleavings at the granularity of lock acquisitions and API/provider calls; sequentially consistent memory",
	"participants: <=3 pods, pools of <=3 IPs, <=4 threads; bounds as reported per scenario",
	"galaxy sources are rewritten through a build overlay (sync/keymutex/wait/time.Now/map ranges -> shims); hooks under build tag verif",
}

func init() {
	exploreProperty("C01", "exploration", ruleExplore, assumeIPAM, false, oracleC01, 170, 1200)
	exploreProperty("C04", "exploration", ruleExplore, assumeIPAM, true, oracleC04, 170, 1200)
	exploreProperty("C10", "exploration", ruleExplore, assumeIPAM, true, oracleC10, 170, 1200)
}

// c10Scenarios: the shared families with a recording provider, one clean provider failure (retried by the caller) and a
// free node choice (pods move between nodes of the same subnet), plus sequential move histories.
func c10Scenarios(tier string) []*Scenario {
	b := map[string]int{"preempt": 1, "cloudfail": 1, "node": 1}
	if tier == "thorough" {
		// (no API-server faults here: the property's fault model is a provider call failing cleanly and being retried; an API
		// failure between AssignIP and the record of the node leaves the provider ahead of the IPAM by construction)
		b = map[string]int{"preempt": 2, "cloudfail": 1, "node": 1}
	}
	var sc []*Scenario
	sc = append(sc, famRecreate(true, b, "")...)
	sc = append(sc, famRolling(true, b)...)
	sc = append(sc, famContend(true, b)...)
	sc = append(sc, famAPIRelease(true, b)...)
	sc = append(sc, famMove(b)...)
	// lagging informer cache (four threads: one preemption at most); nodes of one subnet, free node choice
	lb := map[string]int{"preempt": 1, "cloudfail": b["cloudfail"], "node": b["node"]}
	sc = append(sc, famLag(true, lb)...)
	return sc
}
