package props

import (
	"fmt"

	"tkestack.io/galaxy/pkg/ipam/schedulerplugin/util"

	"verif.local/mc/coop"
	"verif.local/mc/world"
)

// liveBound returns, per pod key, the binding of the incarnation that currently exists and is alive.
func liveBound(w *world.World) []world.BindRec {
	var out []world.BindRec
	for i := len(w.Bindings) - 1; i >= 0; i-- {
		b := w.Bindings[i]
		p := w.Pods[b.PodKey]
		if p == nil || string(p.UID) != b.UID || !w.Alive(b.PodKey) {
			continue
		}
		dup := false
		for _, o := range out {
			if o.PodKey == b.PodKey {
				dup = true
			}
		}
		if !dup {
			out = append(out, b)
		}
	}
	return out
}

func podKeyInDB(w *world.World, podKey string) string {
	p := w.Pods[podKey]
	if p == nil {
		return ""
	}
	k, err := util.FormatKey(p)
	if err != nil {
		return ""
	}
	return k.KeyInDB
}

func memByIP(w *world.World) (map[string]world.IPState, *Finding) {
	m := map[string]world.IPState{}
	for _, s := range w.MemDump() {
		if _, dup := m[s.IP]; dup {
			return nil, &Finding{Clause: "ip-in-both-tables", Detail: s.IP + " appears twice in the IPAM tables"}
		}
		m[s.IP] = s
	}
	return m, nil
}

func storeByIP(w *world.World) map[string]world.IPState {
	m := map[string]world.IPState{}
	for _, s := range w.StoreDump() {
		m[s.IP] = s
	}
	return m
}

// oracleC01: (a) every IP has one entry in memory; (b) no two live pods were handed the same IP;
// at quiescence: memory and store name the same owner key for every IP.
func oracleC01(w *world.World, s *coop.Sched, final bool) *Finding {
	mem, f := memByIP(w)
	if f != nil {
		return f
	}
	holder := map[string]world.BindRec{}
	for _, b := range liveBound(w) {
		for _, ip := range b.IPs {
			if o, ok := holder[ip]; ok && o.PodKey != b.PodKey {
				return &Finding{Clause: "two-live-pods-one-ip", Detail: fmt.Sprintf("%s bound to live pods %s(uid %s) and %s(uid %s)",
					ip, o.PodKey, o.UID, b.PodKey, b.UID)}
			}
			holder[ip] = b
		}
	}
	if final {
		st := storeByIP(w)
		for ip, m := range mem {
			so, ok := st[ip]
			if m.Alloc != ok || (ok && so.Key != m.Key) {
				return &Finding{Clause: "owner-disagreement-at-quiescence", Detail: fmt.Sprintf("%s memory={%v} store={%v present=%v}", ip, m, so, ok)}
			}
		}
		for ip := range st {
			if _, ok := mem[ip]; !ok {
				return &Finding{Clause: "store-object-outside-memory", Detail: ip}
			}
		}
	}
	return nil
}

// oracleC04: every live pod bound by galaxy keeps each of its IPs: memory owner == store owner ==
// its key, and the provider was not asked to unassign the IP after the binding.
func oracleC04(w *world.World, s *coop.Sched, final bool) *Finding {
	mem, f := memByIP(w)
	if f != nil {
		return nil // C01's business
	}
	st := storeByIP(w)
	for _, b := range liveBound(w) {
		key := podKeyInDB(w, b.PodKey)
		for _, ip := range b.IPs {
			m := mem[ip]
			// (while an old instance overlaps a new one, the new instance's tables may lag behind the store: what the property
			// protects is the assignment itself, i.e. the store clause below and, after the overlap, both)
			if (!m.Alloc || m.Key != key) && !w.TwoInstances {
				return &Finding{Clause: "live-pod-ip-lost-in-memory", Detail: fmt.Sprintf("pod %s(uid %s) bound with %s but memory says {%v}; store log %v",
					b.PodKey, b.UID, ip, m, tail(w.StoreLog, 4))}
			}
			so, ok := st[ip]
			if !ok || so.Key != key {
				return &Finding{Clause: "live-pod-ip-lost-in-store", Detail: fmt.Sprintf("pod %s(uid %s) bound with %s but store says {%v present=%v}; store log %v",
					b.PodKey, b.UID, ip, so, ok, tail(w.StoreLog, 4))}
			}
			if w.Cloud != nil {
				for _, c := range w.Cloud.Calls[b.CloudIdx:] {
					if c.Op == "unassign" && c.IP == ip && c.OK {
						return &Finding{Clause: "live-pod-ip-unassigned", Culprit: stripInst(c.By), Detail: fmt.Sprintf("pod %s(uid %s) on %s: provider asked to unassign %s from %s by %s",
							b.PodKey, b.UID, b.Node, ip, c.Node, c.By)}
					}
				}
			}
		}
	}
	return nil
}

func stripInst(n string) string {
	for i := 0; i < len(n); i++ {
		if n[i] == '#' {
			return n[:i]
		}
	}
	return n
}

func tail(l []string, n int) []string {
	if len(l) > n {
		return l[len(l)-n:]
	}
	return l
}

// oracleC10: per-IP automaton over the provider call log and the IPAM transitions.
//   - assign(ip,n) while the provider has ip on m != n                       -> double-assign
//   - IPAM frees ip, or gives it to a different owner key, while it is assigned -> freed-while-assigned
//   - at quiescence every live bound pod's IP is assigned to its node       -> live-pod-not-assigned
func oracleC10(w *world.World, s *coop.Sched, final bool) *Finding {
	if w.Cloud == nil {
		return nil
	}
	assigned := map[string]string{}
	for _, c := range w.Cloud.Calls {
		if !c.OK {
			continue
		}
		if c.Op == "assign" {
			if n, ok := assigned[c.IP]; ok && n != c.Node {
				return &Finding{Clause: "double-assign", Culprit: stripInst(c.By), Detail: fmt.Sprintf("%s assigned to %s while still assigned to %s (by %s)", c.IP, c.Node, n, c.By)}
			}
			assigned[c.IP] = c.Node
		} else if assigned[c.IP] == c.Node || c.Node == "" {
			delete(assigned, c.IP)
		}
	}
	mem, f := memByIP(w)
	if f != nil {
		return nil
	}
	// owner key the IP had when it was (last) assigned
	if w.AssignOwner == nil {
		w.AssignOwner = map[string]string{}
	}
	for _, c := range w.Cloud.Calls[w.CloudSeen:] {
		if c.OK && c.Op == "assign" {
			w.AssignOwner[c.IP] = mem[c.IP].Key
		} else if c.OK {
			delete(w.AssignOwner, c.IP)
		}
	}
	w.CloudSeen = len(w.Cloud.Calls)
	for ip, node := range assigned {
		m := mem[ip]
		if !m.Alloc {
			return &Finding{Clause: "freed-while-assigned", Detail: fmt.Sprintf("%s is free in IPAM but the provider still has it on %s; store log %v", ip, node, tail(w.StoreLog, 4))}
		}
		if prev, ok := w.AssignOwner[ip]; ok && prev != m.Key && m.Key != "" {
			if !samePrefixReserve(prev, m.Key) {
				return &Finding{Clause: "rekeyed-while-assigned", Detail: fmt.Sprintf("%s moved from %s to %s while the provider still has it on %s", ip, prev, m.Key, node)}
			}
		}
	}
	if final {
		for _, b := range liveBound(w) {
			for _, ip := range b.IPs {
				if assigned[ip] != b.Node {
					return &Finding{Clause: "live-pod-not-assigned", Detail: fmt.Sprintf("pod %s on %s: %s is assigned to %q", b.PodKey, b.Node, ip, assigned[ip])}
				}
			}
		}
	}
	return nil
}

func samePrefixReserve(a, b string) bool { return false }
