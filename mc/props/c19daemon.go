package props

import (
	"fmt"
	"time"

	"github.com/containernetworking/cni/pkg/skel"
	galaxyapi "tkestack.io/galaxy/pkg/api/galaxy"

	"verif.local/mc/coop"
)

// daemon side of C19: concurrent CNI requests on one galaxy instance, explored under the cooperative scheduler with
// scheduling points at every plugin invocation and state-file access.

func (h *cniHarness) podRequest(cmd, cid, pod string) *galaxyapi.PodRequest {
	full := h.cidPfx + cid
	seen := false
	for _, c := range h.created {
		if c == full {
			seen = true
		}
	}
	if !seen {
		h.created = append(h.created, full)
	}
	return &galaxyapi.PodRequest{Command: cmd, PodNamespace: "ns", PodName: pod,
		CmdArgs: &skel.CmdArgs{ContainerID: full, Netns: "/proc/1/ns/net", IfName: "eth0", Path: h.g.CNIPaths[0],
			Args: "IgnoreUnknown=1;K8S_POD_NAMESPACE=ns;K8S_POD_NAME=" + pod + ";K8S_POD_INFRA_CONTAINER_ID=" + full}}
}

func c19DaemonJobs(tier string) []Job {
	type scen struct {
		name    string
		setup   []cniReq
		threads []cniReq
	}
	scens := []scen{
		{"daemon/ADD(c1)||ADD(c2)", nil, []cniReq{{"ADD", "c1", "p-ab"}, {"ADD", "c2", "p-bc-if"}}},
		{"daemon/ADD(c1)||DEL(c2)", []cniReq{{"ADD", "c2", "p-ab"}}, []cniReq{{"ADD", "c1", "p-ab"}, {"DEL", "c2", "p-ab"}}},
		{"daemon/DEL(c1)||DEL(c2)", []cniReq{{"ADD", "c1", "p-ab"}, {"ADD", "c2", "p-json"}}, []cniReq{{"DEL", "c1", "p-ab"}, {"DEL", "c2", "p-json"}}},
		{"daemon/ADD(c1)||ADD(c2)||DEL(c3)", []cniReq{{"ADD", "c3", "p-ab"}}, []cniReq{{"ADD", "c1", "p-ab"}, {"ADD", "c2", "p-ab"}, {"DEL", "c3", "p-ab"}}},
	}
	var jobs []Job
	for _, sc := range scens {
		sc := sc
		jobs = append(jobs, Job{Name: sc.name, Weight: 4, Run: func(deadline time.Time) *ScenResult {
			t0 := time.Now()
			h, err := newCNIHarness(daemonConf{Defaults: []string{"a"}})
			if err != nil {
				panic(err)
			}
			defer h.close()
			for _, p := range c12Pods {
				h.putPod(p)
			}
			bounds := map[string]int{"preempt": 1}
			if tier == "thorough" {
				bounds["preempt"] = 2
			}
			e := &coop.Explorer{Bounds: bounds, Deadline: deadline, Name: sc.name}
			res := e.Explore(func(x *coop.Exec) coop.Outcome {
				coop.EnableHB(true)
				defer coop.EnableHB(false)
				h.reset()
				for _, r := range sc.setup {
					h.request(r.Cmd, r.CID, r.Pod, "eth0")
				}
				s := coop.NewSched(x)
				for i, r := range sc.threads {
					r := r
					s.Go(fmt.Sprintf("%s-%s#%d", r.Cmd, r.CID, i), func() { _, _ = h.g.VerifRequest(h.podRequest(r.Cmd, r.CID, r.Pod)) })
				}
				s.Run()
				out := coop.Outcome{Trace: s.TraceStrings(), Nontrivial: true}
				var brief []string
				for _, inv := range h.invocations() {
					brief = append(brief, inv.brief())
				}
				out.StateHash = hashOf(brief)
				switch {
				case s.Deadlock:
					out.Err = fmt.Errorf("deadlock")
					out.Signature = "C19|deadlock||daemon"
				case s.Err != nil:
					out.Err = s.Err
					out.Signature = "C19|error|" + firstLines(s.Err.Error(), 1) + "|daemon"
				case len(s.Races) > 0:
					out.Err = fmt.Errorf("data race: %v", s.Races)
					out.Signature = "C19|data-race|" + raceLoc(s.Races[0]) + "|"
				}
				return out
			})
			sr := &ScenResult{Scenario: sc.name, Class: "daemon", Executions: res.Executions, Diverged: res.Diverged, Exhaustive: res.Exhaustive, Stopped: res.StoppedByLimit,
				Bounds: bounds, MaxPoints: res.MaxPoints, Samples: res.SampleTraces, Violations: res.Violations, WallS: time.Since(t0).Seconds()}
			for hsh := range res.Distinct {
				sr.Distinct = append(sr.Distinct, hsh)
				sr.Nontrivial = append(sr.Nontrivial, hsh)
			}
			return sr
		}})
	}
	return jobs
}
