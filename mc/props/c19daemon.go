package props

import (
	"fmt"
	"os"
	"sort"
	"time"

	"github.com/containernetworking/cni/pkg/skel"
	galaxyapi "tkestack.io/galaxy/pkg/api/galaxy"

	"verif.local/mc/coop"
)

// daemon side of C19: concurrent CNI requests on one galaxy instance, explored under the cooperative scheduler with
// scheduling points at every plugin invocation and state-file access.

func (h *cniHarness) podRequest(cmd, cid, pod string) *galaxyapi.PodRequest {
	full := h.cidPfx + cid
	seen := false
	for _, c := range h.created {
		if c == full {
			seen = true
		}
	}
	if !seen {
		h.created = append(h.created, full)
	}
	return &galaxyapi.PodRequest{Command: cmd, PodNamespace: "ns", PodName: pod,
		CmdArgs: &skel.CmdArgs{ContainerID: full, Netns: "/proc/1/ns/net", IfName: "eth0", Path: h.g.CNIPaths[0],
			Args: "IgnoreUnknown=1;K8S_POD_NAMESPACE=ns;K8S_POD_NAME=" + pod + ";K8S_POD_INFRA_CONTAINER_ID=" + full}}
}

func c19DaemonJobs(tier string) []Job {
	type scen struct {
		name    string
		setup   []cniReq
		threads []cniReq
		policy  bool // a policy manager is attached and a policy event runs as a further thread
	}
	scens := []scen{
		{"daemon/ADD(c1)||ADD(c2)", nil, []cniReq{{"ADD", "c1", "p-ab"}, {"ADD", "c2", "p-bc-if"}}, false},
		{"daemon/ADD(c1)||DEL(c2)", []cniReq{{"ADD", "c2", "p-ab"}}, []cniReq{{"ADD", "c1", "p-ab"}, {"DEL", "c2", "p-ab"}}, false},
		{"daemon/DEL(c1)||DEL(c2)", []cniReq{{"ADD", "c1", "p-ab"}, {"ADD", "c2", "p-json"}}, []cniReq{{"DEL", "c1", "p-ab"}, {"DEL", "c2", "p-json"}}, false},
		{"daemon/ADD(c1)||ADD(c2)||DEL(c3)", []cniReq{{"ADD", "c3", "p-ab"}}, []cniReq{{"ADD", "c1", "p-ab"}, {"ADD", "c2", "p-ab"}, {"DEL", "c3", "p-ab"}}, false},
		// pods with host ports: the port table of the port mapping handler, port files, NAT rules
		{"daemon/hostports ADD(c1)||ADD(c2)||DEL(c3)", []cniReq{{"ADD", "c3", "hp-3"}}, []cniReq{{"ADD", "c1", "hp-1"}, {"ADD", "c2", "hp-2"}, {"DEL", "c3", "hp-3"}}, false},
		// network policy enabled: CNI requests sync pod chains and ipsets while a policy event recompiles the policies
		{"daemon/policy-event||ADD(c1)", []cniReq{{"ADD", "c2", "hp-2"}}, []cniReq{{"ADD", "c1", "hp-1"}}, true},
		{"daemon/policy-event||DEL(c2)", []cniReq{{"ADD", "c2", "hp-2"}}, []cniReq{{"DEL", "c2", "hp-2"}}, true},
	}
	if tier == "thorough" {
		scens = append(scens, scen{"daemon/policy-event||ADD(c1)||DEL(c2)", []cniReq{{"ADD", "c2", "hp-2"}}, []cniReq{{"ADD", "c1", "hp-1"}, {"DEL", "c2", "hp-2"}}, true})
	}

	var jobs []Job
	for _, sc := range scens {
		sc := sc
		weight := 4
		if sc.policy {
			weight = 8
		}
		jobs = append(jobs, Job{Name: sc.name, Weight: weight, Run: func(deadline time.Time) *ScenResult {
			t0 := time.Now()
			h, err := newCNIHarness(daemonConf{Defaults: []string{"a"}})
			if err != nil {
				panic(err)
			}
			defer h.close()
			for _, p := range c12Pods {
				h.putPod(p)
			}
			base := int32(43000 + (os.Getpid()%200)*20)
			for i := int32(1); i <= 3; i++ {
				h.putPod(cniPod{Name: fmt.Sprintf("hp-%d", i), Networks: "a", HostPort: base + i, Labels: map[string]string{"app": "web"}})
			}
			var pw *policyWorld
			if sc.policy {
				pw = newPolicyWorld(h.kern)
				pw.setCluster(mkCluster([]string{"web", "db"}, []string{"in-podsel"}))
				pw.pm.Run()
				h.g.VerifSetPolicyManager(pw.pm)
			}
			bounds := map[string]int{"preempt": 1}
			if tier == "thorough" {
				bounds["preempt"] = 2
			}
			e := &coop.Explorer{Bounds: bounds, Deadline: deadline, Name: sc.name}
			res := e.Explore(func(x *coop.Exec) coop.Outcome {
				coop.EnableHB(true)
				defer coop.EnableHB(false)
				h.reset()
				for _, r := range sc.setup {
					h.request(r.Cmd, r.CID, r.Pod, "eth0")
				}
				s := coop.NewSched(x)
				for i, r := range sc.threads {
					r := r
					s.Go(fmt.Sprintf("%s-%s#%d", r.Cmd, r.CID, i), func() { _, _ = h.g.VerifRequest(h.podRequest(r.Cmd, r.CID, r.Pod)) })
				}
				if sc.policy {
					s.Go("policy-event", func() {
						cl := mkCluster([]string{"web", "db"}, []string{"in-podsel", "in-denyall"})
						pw.setCluster(cl)
						_ = pw.pm.AddPolicy(cl.Policies[1])
						pw.setCluster(mkCluster([]string{"web", "db"}, []string{"in-podsel"}))
						_ = pw.pm.DeletePolicy(cl.Policies[1])
					})
				}
				s.Run()
				out := coop.Outcome{Trace: s.TraceStrings(), Nontrivial: true}
				var brief []string
				for _, inv := range h.invocations() {
					brief = append(brief, inv.brief())
				}
				open := h.pmh.VerifOpenPorts()
				sort.Strings(open)
				out.StateHash = hashOf(brief, h.kern.Save("nat"), open)
				switch {
				case s.Deadlock:
					out.Err = fmt.Errorf("deadlock")
					out.Signature = "C19|deadlock||daemon"
				case s.Err != nil:
					out.Err = s.Err
					out.Signature = "C19|error|" + firstLines(s.Err.Error(), 1) + "|daemon"
				case len(s.Races) > 0:
					out.Err = fmt.Errorf("data race: %v", s.Races)
					out.Signature = "C19|data-race|" + raceLoc(s.Races[0]) + "|"
				}
				return out
			})
			sr := &ScenResult{Scenario: sc.name, Class: "daemon", Executions: res.Executions, Diverged: res.Diverged, Exhaustive: res.Exhaustive, Stopped: res.StoppedByLimit,
				Bounds: bounds, MaxPoints: res.MaxPoints, Samples: res.SampleTraces, Violations: res.Violations, WallS: time.Since(t0).Seconds()}
			for hsh := range res.Distinct {
				sr.Distinct = append(sr.Distinct, hsh)
				sr.Nontrivial = append(sr.Nontrivial, hsh)
			}
			return sr
		}})
	}
	return jobs
}
