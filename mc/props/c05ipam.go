package props

import (
	"fmt"
	"net"
	"time"

	"tkestack.io/galaxy/pkg/ipam/floatingip"
	"tkestack.io/galaxy/pkg/utils/nets"

	"verif.local/mc/coop"
	"verif.local/mc/coop/vmap"
	"verif.local/mc/world"
)

// C05 at the IPAM interface: the plugin's operations repeat and retry, which heals many half-done updates before the
// operation is over. "Every completed operation, successful or failed" also quantifies over the operations of the IPAM
// itself: every method of floatingip.IPAM that writes, over a small argument menu, from four allocation states, with its
// k-th API call failing for every k (and fault-free): memory and store agree afterwards and a restarted instance rebuilds the
// same tables.

type ipamOp struct {
	name string
	run  func(i floatingip.IPAM) error
}

func c05IpamOps() []ipamOp {
	ip := net.ParseIP
	_, n1, _ := net.ParseCIDR("10.0.1.0/24")
	rg := func(ss ...string) [][]nets.IPRange {
		var out [][]nets.IPRange
		for _, s := range ss {
			out = append(out, []nets.IPRange{*nets.ParseIPRange(s)})
		}
		return out
	}
	attr := floatingip.Attr{Policy: 1, NodeName: "n1", Uid: "u9"}
	cleared := floatingip.Attr{Policy: 1}
	return []ipamOp{
		{"AllocateSpecificIP(k3,10.10.1.4)", func(i floatingip.IPAM) error { return i.AllocateSpecificIP("sts_ns_c_c-0", ip("10.10.1.4"), attr) }},
		{"AllocateInSubnet(k3,n1)", func(i floatingip.IPAM) error { _, err := i.AllocateInSubnet("sts_ns_c_c-0", n1, attr); return err }},
		{"AllocateInSubnetsAndIPRange(k3,n1,[.3~.4],[.1~.2])", func(i floatingip.IPAM) error {
			_, err := i.AllocateInSubnetsAndIPRange("sts_ns_c_c-0", n1, rg("10.10.1.3~10.10.1.4", "10.10.1.1~10.10.1.2"), attr)
			return err
		}},
		{"AllocateInSubnetsAndIPRange(k1,n1,[.1],[.2],[.3~.4])", func(i floatingip.IPAM) error {
			_, err := i.AllocateInSubnetsAndIPRange("sts_ns_a_a-0", n1, rg("10.10.1.1", "10.10.1.2", "10.10.1.3~10.10.1.4"), attr)
			return err
		}},
		{"AllocateInSubnetWithKey(dp_ns_d_ -> pod)", func(i floatingip.IPAM) error {
			return i.AllocateInSubnetWithKey("dp_ns_d_", "dp_ns_d_d-r1-w", n1.String(), attr)
		}},
		{"ReserveIP(k1,k1,cleared)", func(i floatingip.IPAM) error {
			_, err := i.ReserveIP("sts_ns_a_a-0", "sts_ns_a_a-0", cleared)
			return err
		}},
		{"ReserveIP(k1,dp_ns_d_)", func(i floatingip.IPAM) error { _, err := i.ReserveIP("sts_ns_a_a-0", "dp_ns_d_", cleared); return err }},
		{"ReserveIP(dp_ns_d_,k3)", func(i floatingip.IPAM) error { _, err := i.ReserveIP("dp_ns_d_", "sts_ns_c_c-0", attr); return err }},
		{"UpdateAttr(k1,.1)", func(i floatingip.IPAM) error { return i.UpdateAttr("sts_ns_a_a-0", ip("10.10.1.1"), attr) }},
		{"Release(k1,.1)", func(i floatingip.IPAM) error { return i.Release("sts_ns_a_a-0", ip("10.10.1.1")) }},
		{"Release(k2,.3)", func(i floatingip.IPAM) error { return i.Release("sts_ns_b_b-0", ip("10.10.1.3")) }},
		{"ReleaseIPs(k1:.1,.2 k2:.3)", func(i floatingip.IPAM) error {
			_, _, err := i.ReleaseIPs(map[string]string{"10.10.1.1": "sts_ns_a_a-0", "10.10.1.2": "sts_ns_a_a-0", "10.10.1.3": "sts_ns_b_b-0"})
			return err
		}},
		{"ReleaseIPs(.3:dp_ns_d_ .1:wrong-key)", func(i floatingip.IPAM) error {
			_, _, err := i.ReleaseIPs(map[string]string{"10.10.1.3": "dp_ns_d_", "10.10.1.1": "sts_ns_zz_zz-0"})
			return err
		}},
	}
}

type ipamState struct {
	name  string
	alloc [][2]string // ip, key
	// reservedUnseen: an administrator's labelled object for this address exists in the store, the IPAM has not been notified
	reservedUnseen string
}

func c05IpamStates() []ipamState {
	return []ipamState{
		{"empty", nil, ""},
		{"k1 holds .1 .2", [][2]string{{"10.10.1.1", "sts_ns_a_a-0"}, {"10.10.1.2", "sts_ns_a_a-0"}}, ""},
		{"k1 holds .1 .2, k2 holds .3", [][2]string{{"10.10.1.1", "sts_ns_a_a-0"}, {"10.10.1.2", "sts_ns_a_a-0"}, {"10.10.1.3", "sts_ns_b_b-0"}}, ""},
		{"k1 holds .1 .2, reserve dp_ns_d_ holds .3", [][2]string{{"10.10.1.1", "sts_ns_a_a-0"}, {"10.10.1.2", "sts_ns_a_a-0"}, {"10.10.1.3", "dp_ns_d_"}}, ""},
		{"reserve dp_ns_d_ holds .1 .3", [][2]string{{"10.10.1.1", "dp_ns_d_"}, {"10.10.1.3", "dp_ns_d_"}}, ""},
		{"k1 holds .1 .2, .3 reserved by an administrator (not yet seen)", [][2]string{{"10.10.1.1", "sts_ns_a_a-0"}, {"10.10.1.2", "sts_ns_a_a-0"}}, "10.10.1.3"},
		{".4 reserved by an administrator (not yet seen)", nil, "10.10.1.4"},
		// a reservation in the middle of what a multi-range request walks: the request is refused half-way and rolls back
		{".2 reserved by an administrator (not yet seen)", nil, "10.10.1.2"},
	}
}

func c05IpamJob() Job {
	name := "ipam-interface/faults"
	return Job{Name: name, Weight: 2, Run: func(deadline time.Time) *ScenResult {
		t0 := time.Now()
		r := newCaseResult()
		cfg := cfgOnePool(4, false)
		build := func(st ipamState) *world.World {
			w := world.New(cfg)
			if err := w.Start(); err != nil {
				panic(err)
			}
			for _, a := range st.alloc {
				if err := w.Plugin.GetIpam().AllocateSpecificIP(a[1], net.ParseIP(a[0]), floatingip.Attr{Policy: 1, NodeName: "n1", Uid: "u1"}); err != nil {
					panic(err)
				}
			}
			if st.reservedUnseen != "" {
				_ = w.Reserve(st.reservedUnseen)
				w.Pending = nil
			}
			return w
		}
		for _, st := range c05IpamStates() {
			for _, op := range c05IpamOps() {
				for _, rot := range []int{0, 1} {
					if time.Now().After(deadline) {
						r.exhausted = false
						return r.toScen(name, t0, nil)
					}
					// fault-free run: number of API calls, agreement, restart equivalence
					w := build(st)
					w.ResetFault(0)
					setRotation(rot)
					err := op.run(w.Plugin.GetIpam())
					n := w.FaultCount()
					check := func(w *world.World, k int, failed string, err error) {
						r.evals++
						desc := fmt.Sprintf("state {%s}, %s (table iteration order %d)", st.name, op.name, rot)
						if k > 0 {
							desc += fmt.Sprintf(" with API call %d (%s) failing -> %v", k, failed, err)
						}
						r.distinct[hashOf(st.name, op.name, rot, k, err != nil, dumpNoTime(w.MemDump()))] = true
						if len(r.samples) < 3 && r.evals%41 == 1 {
							r.samples = append(r.samples, desc)
						}
						mode := "nofault"
						if k > 0 {
							mode = "fault:" + failed
						}
						if ip := st.reservedUnseen; ip != "" {
							// the administrator's object is not the IPAM's to touch, and the tables must not claim the address
							mem, _ := memByIP(w)
							so, ok := storeByIP(w)[ip]
							if !ok || !so.Reserved || so.Key != "admin-reserved" {
								r.violate("C05", name, opKind(op.name), "administrator-reservation-changed", mode, fmt.Sprintf("%s: store has {%v present=%v}", desc, so, ok), []string{desc})
								return
							}
							if mem[ip].Alloc {
								r.violate("C05", name, opKind(op.name), "memory-claims-an-address-the-store-gives-to-someone-else", mode, fmt.Sprintf("%s: memory {%v}, store {%v}", desc, mem[ip], so), []string{desc})
								return
							}
							delete(w.FIPs, ip) // the rest is compared without it
						}
						if f := agreeMemStore(w); f != nil {
							r.violate("C05", name, opKind(op.name), f.Clause, mode, desc+": "+f.Detail, []string{desc})
							return
						}
						if f := restartCompare(w); f != nil {
							r.violate("C05", name, opKind(op.name), f.Clause, mode, desc+": "+f.Detail, []string{desc})
						}
					}
					check(w, 0, "", err)
					for k := 1; k <= n; k++ {
						w := build(st)
						w.ResetFault(k)
						setRotation(rot)
						err := op.run(w.Plugin.GetIpam())
						w.ResetFault(0)
						failed := ""
						for _, l := range w.APILog {
							if len(l) > 6 && l[:6] == "FAULT " {
								failed = l[6:]
							}
						}
						check(w, k, failed, err)
					}
					setRotation(0)
				}
			}
		}
		return r.toScen(name, t0, map[string]int{"states": len(c05IpamStates()), "operations": len(c05IpamOps()), "faults": 1})
	}}
}

func opKind(n string) string {
	for i := 0; i < len(n); i++ {
		if n[i] == '(' {
			return n[:i]
		}
	}
	return n
}

// setRotation varies the (otherwise sorted) iteration order over the tables.
func setRotation(r int) { vmap.Rotation = r }

var _ = coop.IsManaged
