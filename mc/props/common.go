// Package props holds the per-property scenarios, oracles and the check driver.
package props

import (
	"crypto/sha1"
	"encoding/hex"
	"encoding/json"
	"fmt"
	"os"
	"os/exec"
	"path/filepath"
	"runtime"
	"runtime/debug"
	"sort"
	"strconv"
	"strings"
	"time"

	"verif.local/mc/coop"
	"verif.local/mc/world"
)

// Thread is one managed thread of a scenario.
type Thread struct {
	Name string
	Body func()
}

// Scenario is one closed system to explore.
type Scenario struct {
	Name   string
	Class  string // workload/policy class (part of a finding's signature)
	Cfg    world.Config
	Bounds map[string]int
	// Build runs the sequential prefix on a fresh world (free mode) and returns the concurrent threads.
	Build func(w *world.World) []Thread
	// Final runs after all threads finished (free mode), e.g. quiescence: deliver everything, resync.
	Final func(w *world.World)
	// Cost weights scenarios for time budgeting.
	Weight int
}

// Finding is an oracle verdict.
type Finding struct {
	Clause  string
	Culprit string
	Detail  string
}

// Oracle evaluates a property on the world at a scheduling point (final=false) or at the end (final=true).
type Oracle func(w *world.World, s *coop.Sched, final bool) *Finding

func hashOf(parts ...interface{}) string {
	h := sha1.New()
	for _, p := range parts {
		fmt.Fprintf(h, "%v|", p)
	}
	return hex.EncodeToString(h.Sum(nil))[:16]
}

func culpritOf(s *coop.Sched) string {
	if s == nil || s.LastRan == nil {
		return "setup"
	}
	n := s.LastRan.Name
	// strip instance suffixes like "#2"
	if i := strings.Index(n, "#"); i >= 0 {
		n = n[:i]
	}
	return n
}

// RunScenario executes scenario sc once under execution x with the given oracle.
func RunScenario(sc *Scenario, prop string, oracle Oracle, x *coop.Exec) coop.Outcome {
	coop.EnableHB(prop == "C19")
	defer coop.EnableHB(false)
	w := world.New(sc.Cfg)
	var out coop.Outcome
	mk := func(f *Finding, s *coop.Sched) {
		out.Err = fmt.Errorf("%s: %s (culprit %s)", f.Clause, f.Detail, f.Culprit)
		out.Signature = prop + "|" + f.Clause + "|" + f.Culprit + "|" + sc.Class
	}
	if err := w.Start(); err != nil {
		out.Err = fmt.Errorf("start: %v", err)
		out.Signature = prop + "|start-failed||" + sc.Class
		return out
	}
	threads := sc.Build(w)
	s := coop.NewSched(x)
	for _, t := range threads {
		s.Go(t.Name, t.Body)
	}
	var found *Finding
	s.OnPoint = func(s *coop.Sched) error {
		if f := oracle(w, s, false); f != nil {
			if f.Culprit == "" {
				f.Culprit = culpritOf(s)
			}
			found = f
			return fmt.Errorf("%s", f.Clause)
		}
		return nil
	}
	s.Run()
	out.Trace = s.TraceStrings()
	switch {
	case found != nil:
		mk(found, s)
	case s.Deadlock:
		var parked []string
		for _, t := range s.Threads {
			parked = append(parked, t.Name+"@"+t.Kind+":"+t.Label)
		}
		out.Err = fmt.Errorf("deadlock: %v", parked)
		out.Signature = prop + "|deadlock||" + sc.Class
	case s.Err != nil:
		out.Err = s.Err
		first := strings.SplitN(s.Err.Error(), "\n", 2)[0]
		out.Signature = prop + "|error|" + first + "|" + sc.Class
	case len(s.Races) > 0:
		out.Err = fmt.Errorf("data race: %s", strings.Join(s.Races, "\n  "))
		out.Signature = prop + "|data-race|" + raceLoc(s.Races[0]) + "|"
	}
	if out.Err == nil && !s.Crashed {
		if sc.Final != nil {
			sc.Final(w)
		}
		if f := oracle(w, nil, true); f != nil {
			if f.Culprit == "" {
				f.Culprit = "final"
			}
			mk(f, s)
		}
	}
	out.StateHash = hashOf(w.MemDump(), w.StoreDump(), bindSummary(w), cloudSummary(w))
	out.Nontrivial = len(w.Writers) >= 2
	return out
}

// raceLoc extracts the location name from a race report ("write/read on <name>: ...").
func raceLoc(r string) string {
	if i := strings.Index(r, " on "); i >= 0 {
		r = r[i+4:]
		if j := strings.Index(r, ":"); j >= 0 {
			return r[:j]
		}
	}
	return r
}

func bindSummary(w *world.World) string {
	var b []string
	for _, r := range w.Bindings {
		b = append(b, fmt.Sprintf("%s/%s@%s%v", r.PodKey, r.UID, r.Node, r.IPs))
	}
	return strings.Join(b, ";")
}

func cloudSummary(w *world.World) string {
	if w.Cloud == nil {
		return ""
	}
	var b []string
	for _, c := range w.Cloud.Calls {
		b = append(b, fmt.Sprintf("%s %s %s %v", c.Op, c.IP, c.Node, c.OK))
	}
	return strings.Join(b, ";")
}

// ---------------------------------------------------------------------------------------------
// driver: sharding over worker processes, evidence, known findings

// ScenResult is what a worker reports per scenario.
type ScenResult struct {
	Scenario    string            `json:"scenario"`
	Class       string            `json:"class"`
	Executions  int               `json:"executions"`
	Distinct    []string          `json:"distinct"`
	Nontrivial  []string          `json:"nontrivial"`
	Diverged    int               `json:"diverged"`
	Deadlocks   int               `json:"deadlocks"`
	Exhaustive  bool              `json:"exhaustive"`
	Stopped     string            `json:"stopped,omitempty"`
	Bounds      map[string]int    `json:"bounds"`
	MaxPoints   int               `json:"max_points"`
	Samples     [][]string        `json:"samples,omitempty"`
	Violations  []coop.Violation  `json:"violations,omitempty"`
	WallS       float64           `json:"wall_s"`
	Extra       map[string]int    `json:"extra,omitempty"`
	States      int               `json:"states,omitempty"`
	Transitions int               `json:"transitions,omitempty"`
	MaxDepth    int               `json:"max_depth,omitempty"`
	SampleObjs  []json.RawMessage `json:"sample_objs,omitempty"`
}

// Job is a unit of work a property defines: it runs and returns a ScenResult.
type Job struct {
	Name   string
	Weight int
	Run    func(deadline time.Time) *ScenResult
}

// Property describes a check.
type Property struct {
	ID        string
	Level     string // exploration | fault_enumeration | model_checking
	Rule      string
	Assume    []string
	Jobs      func(tier string) []Job
	QuickS    int // wall budget (seconds) per tier
	ThoroughS int
}

var registry = map[string]*Property{}

func register(p *Property) { registry[p.ID] = p }

// ExploreJob wraps a scenario + oracle as a Job.
func ExploreJob(prop string, sc *Scenario, oracle Oracle) Job {
	return Job{Name: sc.Name, Weight: sc.Weight, Run: func(deadline time.Time) *ScenResult {
		t0 := time.Now()
		e := &coop.Explorer{Bounds: sc.Bounds, Deadline: deadline, Name: sc.Name}
		r := e.Explore(func(x *coop.Exec) coop.Outcome { return RunScenario(sc, prop, oracle, x) })
		res := &ScenResult{Scenario: sc.Name, Class: sc.Class, Executions: r.Executions, Diverged: r.Diverged, Exhaustive: r.Exhaustive,
			Stopped: r.StoppedByLimit, Bounds: sc.Bounds, MaxPoints: r.MaxPoints, Samples: r.SampleTraces, Violations: r.Violations,
			WallS: time.Since(t0).Seconds()}
		for h := range r.Distinct {
			res.Distinct = append(res.Distinct, h)
		}
		for h := range r.NontrivialSet {
			res.Nontrivial = append(res.Nontrivial, h)
		}
		return res
	}}
}

// KnownFinding is one entry of /verif/known_findings.json.
type KnownFinding struct {
	Status    string `json:"status"` // known | fixed
	Property  string `json:"property"`
	Signature string `json:"signature"` // matched as a prefix of the violation signature
	Commit    string `json:"commit,omitempty"`
	Text      string `json:"text"`
	Witness   string `json:"witness,omitempty"`
}

func loadKnown(root string) []KnownFinding {
	var f struct {
		Findings []KnownFinding `json:"findings"`
	}
	data, err := os.ReadFile("/verif/known_findings.json")
	if err != nil {
		return nil
	}
	_ = json.Unmarshal(data, &f)
	return f.Findings
}

// Main is the entry point of the check binaries.
func Main() {
	args := os.Args[1:]
	opt := map[string]string{"tier": "quick", "root": "/verif", "workers": strconv.Itoa(runtime.NumCPU())}
	for i := 0; i < len(args); i++ {
		a := args[i]
		if strings.HasPrefix(a, "--") && i+1 < len(args) {
			opt[a[2:]] = args[i+1]
			i++
		}
	}
	if v := os.Getenv("VERIF_TIER"); v != "" && opt["tier_set"] == "" {
		if _, explicit := opt["tier-explicit"]; !explicit {
			opt["tier"] = v
		}
	}
	if opt["replay"] != "" {
		os.Exit(replay(opt["replay"]))
	}
	if opt["racepass"] != "" {
		n, _ := strconv.Atoi(opt["racepass"])
		os.Exit(RacePassMain(max(1, n)))
	}
	p := registry[opt["prop"]]
	if p == nil {
		fmt.Fprintf(os.Stderr, "unknown property %q\n", opt["prop"])
		os.Exit(2)
	}
	tier := opt["tier"]
	if tier != "thorough" {
		tier = "quick"
	}
	if opt["worker"] != "" {
		os.Exit(workerMain(p, tier, opt))
	}
	os.Exit(parentMain(p, tier, opt))
}

func budget(p *Property, tier string) time.Duration {
	s := p.QuickS
	if tier == "thorough" {
		s = p.ThoroughS
	}
	if s == 0 {
		s = 90
	}
	return time.Duration(s) * time.Second
}

func workerMain(p *Property, tier string, opt map[string]string) int {
	jobs := jobsOf(p, tier)
	var idx []int
	for _, s := range strings.Split(opt["worker"], ",") {
		if n, err := strconv.Atoi(s); err == nil && n >= 0 && n < len(jobs) {
			idx = append(idx, n)
		}
	}
	end := time.Now().Add(budget(p, tier))
	totalW := 0
	for _, i := range idx {
		totalW += max(1, jobs[i].Weight)
	}
	enc := json.NewEncoder(os.Stdout)
	for k, i := range idx {
		remain := time.Until(end)
		// a job may use up to three times its weight's share of what is left of the worker's budget (jobs differ a lot in size
		// and what one leaves over goes to the next ones anyway), as long as every later job keeps at least a second
		share := 3 * time.Duration(float64(remain)*float64(max(1, jobs[i].Weight))/float64(max(1, totalW)))
		totalW -= max(1, jobs[i].Weight)
		if later := time.Duration(len(idx)-1-k) * time.Second; share > remain-later {
			share = remain - later
		}
		if share < time.Second {
			share = time.Second
		}
		r := runJobRecover(p.ID, jobs[i], time.Now().Add(share))
		if r.Scenario == "" {
			r.Scenario = jobs[i].Name
		}
		_ = enc.Encode(r)
	}
	return 0
}

// runJobRecover turns a panic that escapes a job (i.e. a panic of the code under test outside a managed thread) into a violation.
func runJobRecover(prop string, j Job, deadline time.Time) (res *ScenResult) {
	defer func() {
		if r := recover(); r != nil {
			stack := string(debug.Stack())
			first := fmt.Sprint(r)
			fn := panicSite(stack)
			res = &ScenResult{Scenario: j.Name, Executions: 1, Exhaustive: false, Stopped: "panic",
				Violations: []coop.Violation{{Scenario: j.Name, Error: "panic: " + first + "\n" + trimLines(stack, 30), Signature: prop + "|panic|" + fn + "|" + j.Name}}}
		}
	}()
	return j.Run(deadline)
}

func trimLines(s string, n int) string {
	l := strings.Split(s, "\n")
	if len(l) > n {
		l = l[:n]
	}
	return strings.Join(l, "\n")
}

// panicSite returns the first galaxy function on the stack.
func panicSite(stack string) string {
	for _, l := range strings.Split(stack, "\n") {
		if strings.HasPrefix(l, "tkestack.io/galaxy/") {
			if i := strings.Index(l, "("); i > 0 {
				l = l[:i]
			}
			return strings.TrimPrefix(l, "tkestack.io/galaxy/")
		}
	}
	return "unknown"
}

func parentMain(p *Property, tier string, opt map[string]string) int {
	t0 := time.Now()
	root := opt["root"]
	seed, _ := strconv.Atoi(os.Getenv("VERIF_SEED"))
	jobs := jobsOf(p, tier)
	nw, _ := strconv.Atoi(opt["workers"])
	if nw < 1 {
		nw = 1
	}
	if nw > len(jobs) {
		nw = len(jobs)
	}
	// order jobs by weight descending (stable, rotated by seed) and deal them round-robin
	order := make([]int, len(jobs))
	for i := range order {
		order[i] = i
	}
	sort.SliceStable(order, func(a, b int) bool { return jobs[order[a]].Weight > jobs[order[b]].Weight })
	shards := make([][]string, nw)
	for k, j := range order {
		s := (k + seed) % nw
		shards[s] = append(shards[s], strconv.Itoa(j))
	}
	self, _ := os.Executable()
	type wres struct {
		out []byte
		err error
	}
	ch := make(chan wres, nw)
	for _, sh := range shards {
		sh := sh
		go func() {
			run := func() ([]byte, error) {
				cmd := exec.Command(self, "--prop", p.ID, "--tier", tier, "--worker", strings.Join(sh, ","), "--root", root)
				cmd.Env = append(os.Environ(), "GOMAXPROCS=2")
				cmd.Stderr = os.Stderr
				return cmd.Output()
			}
			out, err := run()
			if err != nil {
				// a worker process that dies (e.g. killed under memory pressure) is run once more before its jobs count as failed
				fmt.Fprintf(os.Stderr, "worker for jobs %v failed (%v), running it again\n", sh, err)
				out, err = run()
			}
			ch <- wres{out, err}
		}()
	}
	var results []*ScenResult
	workerFailed := 0
	for range shards {
		r := <-ch
		if r.err != nil {
			workerFailed++
			fmt.Fprintf(os.Stderr, "worker failed: %v\n", r.err)
		}
		dec := json.NewDecoder(strings.NewReader(string(r.out)))
		for dec.More() {
			var sr ScenResult
			if err := dec.Decode(&sr); err != nil {
				break
			}
			results = append(results, &sr)
		}
	}
	sort.Slice(results, func(i, j int) bool { return results[i].Scenario < results[j].Scenario })
	return report(p, tier, seed, root, results, workerFailed, time.Since(t0))
}

func report(p *Property, tier string, seed int, root string, results []*ScenResult, workerFailed int, wall time.Duration) int {
	known := loadKnown(root)
	evals, diverged := 0, 0
	distinct, nontriv := map[string]bool{}, map[string]bool{}
	exhaustive := workerFailed == 0
	var samples []interface{}
	var perScen []map[string]interface{}
	states, transitions, maxDepth := 0, 0, 0
	extra := map[string]int{}
	var newViol []coop.Violation
	knownHit := map[string]bool{}
	for _, r := range results {
		evals += r.Executions
		diverged += r.Diverged
		states += r.States
		transitions += r.Transitions
		if r.MaxDepth > maxDepth {
			maxDepth = r.MaxDepth
		}
		for k, v := range r.Extra {
			extra[k] += v
		}
		for _, h := range r.Distinct {
			distinct[r.Scenario+h] = true
		}
		for _, h := range r.Nontrivial {
			nontriv[r.Scenario+h] = true
		}
		if !r.Exhaustive && r.Class != "auxiliary" {
			// auxiliary passes (e.g. the free-running race-detector run) are listed with their own status; the exhaustive flag of
			// the check speaks about the deciding, enumerating jobs
			exhaustive = false
		}
		if r.Class == "auxiliary" {
			evals -= r.Executions
			extra["auxiliary_executions"] += r.Executions
		}
		if len(samples) < 4 {
			for _, s := range r.Samples {
				if len(samples) < 4 {
					samples = append(samples, map[string]interface{}{"scenario": r.Scenario, "schedule": s})
				}
			}
			for _, s := range r.SampleObjs {
				if len(samples) < 4 {
					samples = append(samples, s)
				}
			}
		}
		perScen = append(perScen, map[string]interface{}{"scenario": r.Scenario, "executions": r.Executions, "distinct_outcomes": len(r.Distinct),
			"exhaustive": r.Exhaustive, "stopped": r.Stopped, "bounds": r.Bounds, "max_choice_points": r.MaxPoints, "wall_s": r.WallS,
			"states": r.States, "transitions": r.Transitions})
		for _, v := range r.Violations {
			matched := false
			for _, k := range known {
				if k.Status == "known" && k.Property == p.ID && strings.HasPrefix(v.Signature, k.Signature) {
					matched = true
					if !knownHit[k.Signature] {
						knownHit[k.Signature] = true
						fmt.Printf("KNOWN-FINDING: property=%s %s\n", p.ID, k.Text)
					}
				}
			}
			if !matched {
				newViol = append(newViol, v)
			}
		}
	}
	rc := 0
	seenSig := map[string]bool{}
	for i, v := range newViol {
		if seenSig[v.Signature] {
			continue
		}
		seenSig[v.Signature] = true
		dir := filepath.Join(root, "replays", p.ID)
		_ = os.MkdirAll(dir, 0o755)
		path := filepath.Join(dir, fmt.Sprintf("%s-%d.json", sanitize(v.Scenario), i))
		data, _ := json.MarshalIndent(map[string]interface{}{"property": p.ID, "tier": tier, "violation": v}, "", " ")
		_ = os.WriteFile(path, data, 0o644)
		fmt.Printf("VIOLATION property=%s replay=%s\n", p.ID, path)
		fmt.Printf("  signature: %s\n  error: %s\n", v.Signature, firstLines(v.Error, 6))
		rc = 1
	}
	cov := map[string]interface{}{
		"evaluations":         evals,
		"distinct_nontrivial": len(nontriv),
		"distinct_outcomes":   len(distinct),
		"rule":                p.Rule,
		"samples":             samples,
		"exhaustive":          exhaustive,
		"diverged":            diverged,
		"scenarios":           perScen,
		"known_findings_hit":  len(knownHit),
		"worker_failures":     workerFailed,
	}
	for k, v := range extra {
		cov[k] = v
	}
	if p.Level == "model_checking" {
		cov["states"] = states
		cov["transitions"] = transitions
		cov["traces_validated_against_impl"] = transitions
		cov["max_depth"] = maxDepth
	}
	ev := map[string]interface{}{
		"property_id": p.ID, "tier": tier, "seed": seed, "level": p.Level, "coverage": cov,
		"assumptions": p.Assume, "wall_s": wall.Seconds(), "violations": len(seenSig),
	}
	_ = os.MkdirAll(filepath.Join(root, "evidence"), 0o755)
	data, _ := json.MarshalIndent(ev, "", " ")
	_ = os.WriteFile(filepath.Join(root, "evidence", p.ID+".json"), data, 0o644)
	fmt.Printf("%s %s: evaluations=%d distinct_outcomes=%d nontrivial=%d states=%d transitions=%d exhaustive=%v violations=%d known=%d wall=%.1fs\n",
		p.ID, tier, evals, len(distinct), len(nontriv), states, transitions, exhaustive, len(seenSig), len(knownHit), wall.Seconds())
	if workerFailed > 0 {
		fmt.Printf("note: %d worker process(es) failed; results are partial\n", workerFailed)
		if rc == 0 {
			rc = 2
		}
	}
	return rc
}

func firstLines(s string, n int) string {
	l := strings.Split(s, "\n")
	if len(l) > n {
		l = l[:n]
	}
	return strings.Join(l, "\n    ")
}

func sanitize(s string) string {
	return strings.Map(func(r rune) rune {
		if r >= 'a' && r <= 'z' || r >= 'A' && r <= 'Z' || r >= '0' && r <= '9' || r == '-' || r == '_' {
			return r
		}
		return '_'
	}, s)
}

func max(a, b int) int {
	if a > b {
		return a
	}
	return b
}

// replay re-runs a recorded violation and prints what happens.
func replay(path string) int {
	data, err := os.ReadFile(path)
	if err != nil {
		fmt.Fprintln(os.Stderr, err)
		return 2
	}
	var f struct {
		Property  string         `json:"property"`
		Tier      string         `json:"tier"`
		Violation coop.Violation `json:"violation"`
	}
	if err := json.Unmarshal(data, &f); err != nil {
		fmt.Fprintln(os.Stderr, err)
		return 2
	}
	p := registry[f.Property]
	if p == nil {
		fmt.Fprintln(os.Stderr, "unknown property", f.Property)
		return 2
	}
	if rp, ok := replayers[f.Property]; ok {
		return rp(f.Tier, f.Violation)
	}
	fmt.Fprintln(os.Stderr, "no replayer for", f.Property)
	return 2
}

var replayers = map[string]func(tier string, v coop.Violation) int{}

// replayExplore replays a coop violation against the named scenario.
func replayExplore(prop string, scens []*Scenario, oracle Oracle, v coop.Violation) int {
	for _, sc := range scens {
		if sc.Name != v.Scenario {
			continue
		}
		sc.Bounds = v.Bounds
		x := &coop.Exec{Prefix: v.Choices, Bounds: v.Bounds}
		out := RunScenario(sc, prop, oracle, x)
		for _, l := range out.Trace {
			fmt.Println("  ", l)
		}
		if x.Diverged {
			fmt.Println("replay diverged")
			return 2
		}
		if out.Err != nil {
			fmt.Printf("VIOLATION property=%s replay=%s\n  %s\n", prop, "(replayed)", firstLines(out.Err.Error(), 8))
			return 1
		}
		fmt.Println("no violation on replay")
		return 0
	}
	fmt.Fprintln(os.Stderr, "scenario not found:", v.Scenario)
	return 2
}

// jobsOf: the jobs of a property; VERIF_ONLY=<substring> (development aid, never set by the registered commands) keeps only
// the jobs whose name contains the substring.
func jobsOf(p *Property, tier string) []Job {
	jobs := p.Jobs(tier)
	only := os.Getenv("VERIF_ONLY")
	if only == "" {
		return jobs
	}
	var out []Job
	for _, j := range jobs {
		if strings.Contains(j.Name, only) {
			out = append(out, j)
		}
	}
	return out
}
