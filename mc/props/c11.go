package props

import (
	"fmt"
	"net/url"
	"sort"
	"strings"
	"time"

	corev1 "k8s.io/api/core/v1"
	metav1 "k8s.io/apimachinery/pkg/apis/meta/v1"
	"tkestack.io/galaxy/pkg/api/galaxy/constant"
	"tkestack.io/galaxy/pkg/ipam/api"
	"tkestack.io/galaxy/pkg/ipam/schedulerplugin/util"
	"tkestack.io/galaxy/pkg/utils/nets"

	"verif.local/mc/coop/vmap"

	"verif.local/mc/world"
)

// C11: keys are unambiguous; the API releases what it lists; paging shows every IP once.

var (
	c11Names  = []string{"a", "b", "ab", "a-0", "a-b", "a.b", "0", "b-0"}
	c11Owners = [][2]string{{"", ""}, {"StatefulSet", "app"}, {"ReplicaSet", "app-x"}, {"ReplicaSet", "app"}, {"TApp", "app"}, {"Job", "a-0"}, {"StatefulSet", "a.b"},
		{"StatefulSetPlus", "app"}, {"ReplicaSetPlus", "app-x"}, {"TAppSet", "app"}, // kinds whose names start with a built-in kind
		{"Deployment", "app"}, {"deployment", "app"}, {"statefulset", "app"}, {"StatefulSets", "app"}} // a pod owned by a deployment directly; other spellings of the built-in kinds
	c11Pools = []string{"", "p", "p-1", "a.b"}
)

func c11Pod(ns, name string, owner [2]string, pool string) *corev1.Pod {
	p := &corev1.Pod{ObjectMeta: metav1.ObjectMeta{Name: name, Namespace: ns, Annotations: map[string]string{}}}
	if owner[0] != "" {
		p.OwnerReferences = []metav1.OwnerReference{{Kind: owner[0], Name: owner[1]}}
	}
	if pool != "" {
		p.Annotations[constant.IPPoolAnnotation] = pool
	}
	return p
}

// c11WantPrefix: the documented mapping from owner kind to the key's app-type prefix, written down independently: statefulset(s)
// -> sts_, replicaset / deployment -> dp_, every other kind its own lower-cased name.
func c11WantPrefix(kind string) string {
	switch strings.ToLower(kind) {
	case "statefulset", "statefulsets":
		return "sts_"
	case "replicaset", "deployment":
		return "dp_"
	}
	return strings.ToLower(kind) + "_"
}

func c11KeysJob() Job {
	return Job{Name: "keys/injective+roundtrip", Weight: 1, Run: func(deadline time.Time) *ScenResult {
		t0 := time.Now()
		r := newCaseResult()
		byKey := map[string]string{}
		byKeyOwner := map[string]string{}
		for _, ns := range c11Names {
			for _, name := range c11Names {
				for _, ow := range c11Owners {
					for _, pool := range c11Pools {
						pod := c11Pod(ns, name, ow, pool)
						k, err := util.FormatKey(pod)
						r.evals++
						desc := fmt.Sprintf("ns=%s pod=%s owner=%v pool=%q", ns, name, ow, pool)
						if err != nil {
							r.distinct[hashOf("err", desc)] = true
							continue
						}
						r.distinct[k.KeyInDB] = true
						id := ns + "/" + name
						if prev, ok := byKey[k.KeyInDB]; ok && prev != id {
							r.violate("C11", "keys", "format", "two-pods-one-key", "FormatKey", fmt.Sprintf("%s and %s both map to %s", prev, id, k.KeyInDB), []string{desc})
						}
						byKey[k.KeyInDB] = id
						if len(r.samples) < 3 && r.evals%397 == 1 {
							r.samples = append(r.samples, desc+" -> "+k.KeyInDB)
						}
						// decode
						d := util.ParseKey(k.KeyInDB)
						wantApp, wantType := util.NoRefAppName, util.NoRefAppTypePrefix
						if ow[0] != "" {
							wantApp = ow[1]
							wantType = c11WantPrefix(ow[0])
							if ow[0] == "ReplicaSet" {
								if i := strings.LastIndex(ow[1], "-"); i >= 0 {
									wantApp = ow[1][:i]
								}
							}
						}
						// pods of different kinds of workloads never share a key, even with equal namespace, app and pod names
						cls := wantType + "|" + wantApp
						if prev, ok := byKeyOwner[k.KeyInDB]; ok && prev != cls+"|"+id {
							r.violate("C11", "keys", "format", "two-owners-one-key", "FormatKey", fmt.Sprintf("%s and %s both map to %s", prev, cls+"|"+id, k.KeyInDB), []string{desc})
						}
						byKeyOwner[k.KeyInDB] = cls + "|" + id
						if d.PoolName != pool || d.Namespace != ns || d.PodName != name || d.AppName != wantApp || d.AppTypePrefix != wantType || d.KeyInDB != k.KeyInDB {
							r.violate("C11", "keys", "parse", "key-does-not-decode-to-its-parts", "ParseKey",
								fmt.Sprintf("%s -> key %s -> {pool %q type %q ns %q app %q pod %q}, want {pool %q type %q ns %q app %q pod %q}", desc, k.KeyInDB,
									d.PoolName, d.AppTypePrefix, d.Namespace, d.AppName, d.PodName, pool, wantType, ns, wantApp, name), []string{desc})
						}
						// re-encode through the API's constructor
						if re := util.NewKeyObj(d.AppTypePrefix, d.Namespace, d.AppName, d.PodName, d.PoolName); re.KeyInDB != k.KeyInDB {
							r.violate("C11", "keys", "parse", "decoded-parts-do-not-rebuild-the-key", "NewKeyObj", fmt.Sprintf("%s: %s -> %s", desc, k.KeyInDB, re.KeyInDB), []string{desc})
						}
					}
				}
			}
		}
		return r.toScen("keys/injective+roundtrip", t0, map[string]int{"names": len(c11Names), "owners": len(c11Owners), "pools": len(c11Pools)})
	}}
}

// c11World builds an IPAM state containing every key shape.
type c11Alloc struct {
	IP, Key string
	Policy  constant.ReleasePolicy
	// LivePod: a pod object with this namespace/name exists (so the entry is not releasable)
	LivePod *world.PodSpec
}

func c11State() (world.Config, []c11Alloc) {
	cfg := world.Config{Pools: "[" + poolJSON([]string{"10.0.1.0/24"}, []string{"10.10.1.1~10.10.1.12"}, "10.10.1.0/24", "10.10.1.254", 0) + "," +
		poolJSON([]string{"10.0.2.0/24"}, []string{"10.9.2.1~10.9.2.2"}, "10.9.2.0/24", "10.9.2.254", 0) + "]", Nodes: nodesN1N2}
	live := world.PodSpec{Name: "a-1", NS: "ns", OwnerKind: "StatefulSet", OwnerName: "a"}
	return cfg, []c11Alloc{
		{"10.10.1.1", "sts_ns_a_a-0", 1, nil},            // statefulset pod, deleted, immutable
		{"10.10.1.2", "sts_ns_a_a-1", 0, &live},          // statefulset pod, alive
		{"10.10.1.3", "dp_ns_d_d-r1-x", 2, nil},          // deployment pod key, pod gone
		{"10.10.1.4", "dp_ns_d_", 2, nil},                // deployment reserve
		{"10.10.1.5", "pool__p_dp_ns_d_d-r1-y", 2, nil},  // pool + deployment pod
		{"10.10.1.6", "pool__p_", 2, nil},                // pool reserve
		{"10.10.1.7", "NULL_ns_NULL_b-0", 2, nil},        // bare pod, never
		{"10.10.1.8", "tapp_ns_t_t-0", 2, nil},           // TApp pod
		{"10.10.1.10", "sts_ns2_a_a-0", 2, nil},          // same names, other namespace
		{"10.9.2.1", "sts_ns_a.b_a.b-0", 1, nil},         // dotted names
		{"10.10.1.11", "pool__p-1_sts_ns_a_a-0", 2, nil}, // pool + statefulset, same pod name as .1
	}
}

func c11Build() (*world.World, []c11Alloc) {
	cfg, allocs := c11State()
	w := world.New(cfg)
	if err := w.Start(); err != nil {
		panic(err)
	}
	w.SetStatefulSet("ns", "a", 3)
	for _, a := range allocs {
		uid := ""
		if a.LivePod != nil {
			uid = string(w.CreatePod(*a.LivePod).UID)
		}
		if err := w.Plugin.GetIpam().AllocateSpecificIP(a.Key, parseIP(a.IP), fipAttr(a.Policy, uid)); err != nil {
			panic(err)
		}
	}
	_ = w.Reserve("10.10.1.9") // administrator reservation (labelled object)
	for len(w.Pending) > 0 {
		w.Deliver(0)
	}
	return w, allocs
}

func c11ListJob() Job {
	return Job{Name: "api/list-pages", Weight: 2, Run: func(deadline time.Time) *ScenResult {
		t0 := time.Now()
		r := newCaseResult()
		w, allocs := c11Build()
		queries := []string{"", "keyword=a", "keyword=pool", "keyword=ns", "keyword=_", "namespace=ns&appName=a", "namespace=ns&appName=a&podName=a-0",
			"namespace=ns&appName=d&appType=deployment", "poolName=p", "poolName=p-1", "namespace=ns&appName=NULL&appType=NULL", "appType=tapp&namespace=ns&appName=t"}
		for _, q := range queries {
			_, full := w.APIList(q + "&size=9999")
			fullIPs := ipsOf(full.Content)
			if q == "" {
				// the unfiltered list must contain every allocated IP
				for _, a := range allocs {
					if !contains(fullIPs, a.IP) {
						r.violate("C11", "api/list-pages", "list", "allocated-ip-missing-from-list", "ListIPs", a.IP+" ("+a.Key+") is not in the unfiltered list", []string{q})
					}
				}
			}
			for _, sortp := range []string{"", "ip asc", "ip desc", "ip"} {
				// page sizes as the client writes them: numbers, and the values for which the documented default applies
				// ("if size <= 0, size = 10"; the same for an absent or unreadable value)
				for si, size := range []string{"1", "2", "3", "5", "10", "0", "-1", "abc", ""} {
					var got []string
					pages := 0
					for page := 0; page < 100; page++ {
						qq := fmt.Sprintf("%s&sort=%s&size=%s&page=%d", q, url.QueryEscape(sortp), url.QueryEscape(size), page)
						vmap.Rotation = page*5 + si + 1 // every request sees the tables in a different iteration order
						_, resp := w.APIList(qq)
						vmap.Rotation = 0
						r.evals++
						pages++
						got = append(got, ipsOf(resp.Content)...)
						// (paging goes on past the page flagged as last, until a page is empty: a page number at or beyond the end
						// must list nothing, or a client that pages until nothing comes back sees addresses twice)
						if len(resp.Content) == 0 {
							break
						}
					}
					r.distinct[hashOf(q, sortp, size, got)] = true
					if len(r.samples) < 3 && r.evals%97 == 1 {
						r.samples = append(r.samples, fmt.Sprintf("GET /v1/ip?%s sort=%q size=%q: %d pages -> %v", q, sortp, size, pages, got))
					}
					a, b := append([]string{}, got...), append([]string{}, fullIPs...)
					sort.Strings(a)
					sort.Strings(b)
					if fmt.Sprint(a) != fmt.Sprint(b) {
						r.violate("C11", "api/list-pages", "list", "paging-does-not-show-every-ip-exactly-once", "ListIPs",
							fmt.Sprintf("query %q sort %q size %q: pages give %v, complete list %v", q, sortp, size, got, fullIPs), []string{q})
					}
					if !ipOrdered(got, sortp == "ip desc") {
						r.violate("C11", "api/list-pages", "list", "pages-not-in-ip-order", "ListIPs", fmt.Sprintf("query %q sort %q size %q: %v", q, sortp, size, got), []string{q})
					}
				}
			}
		}
		return r.toScen("api/list-pages", t0, map[string]int{"queries": len(queries)})
	}}
}

// ipOrdered accepts both readings of "sorted by IP": numeric order or the order of the dotted strings.
func ipOrdered(l []string, desc bool) bool {
	num, str := true, true
	for i := 1; i < len(l); i++ {
		a, b := l[i-1], l[i]
		if desc {
			a, b = b, a
		}
		if nets.IPToInt(parseIP(a)) > nets.IPToInt(parseIP(b)) {
			num = false
		}
		if a > b {
			str = false
		}
	}
	return num || str
}

func ipsOf(l []api.FloatingIP) []string {
	var out []string
	for _, e := range l {
		out = append(out, e.IP)
	}
	return out
}

func contains(l []string, s string) bool {
	for _, x := range l {
		if x == s {
			return true
		}
	}
	return false
}

func c11ReleaseJob() Job {
	return Job{Name: "api/release-what-is-listed", Weight: 2, Run: func(deadline time.Time) *ScenResult {
		t0 := time.Now()
		r := newCaseResult()
		w0, _ := c11Build()
		_, full := w0.APIList("size=9999")
		for _, e := range full.Content {
			variants := []struct {
				name  string
				entry api.FloatingIP
			}{{"verbatim", e}}
			if e.AppType == "statefulset" {
				o := e
				o.AppType = ""
				variants = append(variants, struct {
					name  string
					entry api.FloatingIP
				}{"appType-omitted", o})
			}
			for _, v := range variants {
				w, _ := c11Build()
				before := map[string]world.IPState{}
				for _, s := range w.MemDump() {
					before[s.IP] = s
				}
				code, resp := w.APIRelease([]api.FloatingIP{v.entry})
				r.evals++
				after := map[string]world.IPState{}
				for _, s := range w.MemDump() {
					after[s.IP] = s
				}
				shape := keyShape(before[e.IP].Key)
				if !before[e.IP].Alloc {
					shape = "unallocated"
				}
				if before[e.IP].Reserved {
					shape = "admin-reserved"
				}
				desc := fmt.Sprintf("entry %+v (%s, key %q) -> HTTP %d unreleased=%v reasons=%v", v.entry, v.name, before[e.IP].Key, code, resp.Unreleased, resp.Reason)
				r.distinct[hashOf(e.IP, v.name, code, resp.Unreleased, after[e.IP].Alloc)] = true
				if len(r.samples) < 3 {
					r.samples = append(r.samples, desc)
				}
				for ip, b := range before {
					a := after[ip]
					if ip == e.IP {
						continue
					}
					if a.Alloc != b.Alloc || a.Key != b.Key {
						r.violate("C11", "api/release", shape, "release-changed-another-ip", v.name, fmt.Sprintf("%s: %v -> %v", desc, b, a), []string{desc})
					}
				}
				a := after[e.IP]
				if e.Releasable {
					if a.Alloc {
						r.violate("C11", "api/release", shape, "listed-releasable-entry-not-released", v.name, desc, []string{desc})
					}
					if _, ok := w.FIPs[e.IP]; ok && !a.Alloc {
						r.violate("C11", "api/release", shape, "released-in-memory-only", v.name, desc, []string{desc})
					}
				} else {
					b := before[e.IP]
					if a.Alloc != b.Alloc || a.Key != b.Key {
						r.violate("C11", "api/release", shape, "non-releasable-entry-changed-state", v.name, fmt.Sprintf("%s: %v -> %v", desc, b, a), []string{desc})
					}
				}
			}
		}
		// several entries in one request: the outcome is that of posting them one by one (no entry may influence how another
		// one is understood); all ordered pairs of entry variants
		type variant struct {
			name  string
			entry api.FloatingIP
		}
		var all []variant
		for _, e := range full.Content {
			all = append(all, variant{"verbatim", e})
			if e.AppType == "statefulset" {
				o := e
				o.AppType = ""
				all = append(all, variant{"appType-omitted", o})
			}
		}
		dump := func(w *world.World) string {
			return fmt.Sprint(allocOnly(w.MemDump())) + " store " + fmt.Sprint(w.StoreDump())
		}
		for _, v1 := range all {
			for _, v2 := range all {
				if v1.entry.IP == v2.entry.IP {
					continue
				}
				wa, _ := c11Build()
				wa.APIRelease([]api.FloatingIP{v1.entry})
				wa.APIRelease([]api.FloatingIP{v2.entry})
				wb, _ := c11Build()
				code, resp := wb.APIRelease([]api.FloatingIP{v1.entry, v2.entry})
				r.evals++
				r.distinct[hashOf("pair", v1.entry.IP, v1.name, v2.entry.IP, v2.name, code, resp.Unreleased)] = true
				if a, b := dump(wa), dump(wb); a != b {
					desc := fmt.Sprintf("one request with [%+v (%s), %+v (%s)] -> HTTP %d unreleased=%v reasons=%v", v1.entry, v1.name, v2.entry, v2.name, code, resp.Unreleased, resp.Reason)
					r.violate("C11", "api/release", "pair", "request-with-two-entries-differs-from-one-by-one", v2.name, fmt.Sprintf("%s: tables %s, one by one %s", desc, b, a), []string{desc})
				}
			}
		}
		// entries that name an IP with another owner's identity never touch that IP
		w, allocs := c11Build()
		for _, x := range allocs {
			for _, y := range allocs {
				if x.IP == y.IP {
					continue
				}
				k := util.ParseKey(y.Key)
				entry := api.FloatingIP{IP: x.IP, Namespace: k.Namespace, AppName: k.AppName, PodName: k.PodName, PoolName: k.PoolName, AppType: util.GetAppType(k.AppTypePrefix)}
				before := fmt.Sprint(allocOnly(w.MemDump()))
				code, resp := w.APIRelease([]api.FloatingIP{entry})
				r.evals++
				r.distinct[hashOf("cross", x.IP, y.Key, code)] = true
				if after := fmt.Sprint(allocOnly(w.MemDump())); after != before {
					r.violate("C11", "api/release", "cross", "entry-with-foreign-identity-released-an-ip", "verbatim",
						fmt.Sprintf("posting ip %s with the identity of %s changed the tables (HTTP %d %v)", x.IP, y.Key, code, resp.Reason), []string{x.IP, y.Key})
					w, _ = c11Build()
				}
			}
		}
		return r.toScen("api/release-what-is-listed", t0, map[string]int{"entries": len(full.Content)})
	}}
}

func init() {
	register(&Property{ID: "C11", Level: "exploration", QuickS: 60, ThoroughS: 300,
		Assume: []string{"names from an 8-element DNS-1123 menu (incl. dotted, dashed, numeric), 7 owner shapes, 4 pool names; one IPAM state containing every key shape (pod keys, reserve keys, pool keys, bare pod, TApp, admin reservation, unallocated)",
			"the real api.Controller is driven through a go-restful container (HTTP request/response level)"},
		Rule: "(1) all namespace x pod-name x owner x pool combinations: FormatKey injective over distinct (namespace, pod), ParseKey/NewKeyObj round trip; (2) GET /v1/ip for 12 queries x 4 sort values x 9 page-size values (numbers, 0, negative, unreadable, absent) x all pages vs. the unpaged list; " +
			"(3) every listed entry posted back verbatim (and with appType omitted for statefulset entries) on a fresh replay of the state, every ordered pair of such entries in one request (== one by one), plus every (ip, foreign identity) cross pair; distinct/non-trivial = distinct (input, outcome) pairs",
		Jobs: func(tier string) []Job { return []Job{c11KeysJob(), c11ListJob(), c11ReleaseJob()} }})
	replayers["C11"] = replayDescOnly
}
