package props

import (
	"encoding/json"
	"fmt"
	"net"
	"os"
	"runtime"
	"runtime/debug"
	"sort"
	"strings"
	"time"

	"tkestack.io/galaxy/pkg/api/k8s"
	"tkestack.io/galaxy/pkg/network/portmapping"
	utiliptables "tkestack.io/galaxy/pkg/utils/iptables"

	"verif.local/mc/coop"
	"verif.local/mc/nfsim"
)

// C14: host-port mappings are set up, held and removed completely (history BFS on the netfilter simulator).

type pmSys struct {
	k   *nfsim.Kernel
	h   *portmapping.PortMappingHandler
	log []string
}

func newPM(prior string) *pmSys {
	k := nfsim.New()
	seedNAT(k, prior)
	h := portmapping.NewVerif(utiliptables.New(k.Exec(), utiliptables.ProtocolIpv4), "")
	return &pmSys{k: k, h: h}
}

// seedNAT installs prior NAT-table contents directly (foreign rules, stale galaxy chains).
func seedNAT(k *nfsim.Kernel, prior string) {
	run := func(args ...string) {
		if _, err := k.Run("iptables", append([]string{"-t", "nat"}, args...), nil); err != nil {
			panic(fmt.Sprintf("seed %v: %v", args, err))
		}
	}
	switch prior {
	case "empty":
	case "foreign":
		run("-N", "DOCKER")
		run("-A", "DOCKER", "-i", "docker0", "-j", "RETURN")
		run("-A", "PREROUTING", "-m", "addrtype", "--dst-type", "LOCAL", "-j", "DOCKER")
		run("-N", "KUBE-SERVICES")
		run("-A", "KUBE-SERVICES", "-d", "10.96.0.1/32", "-p", "tcp", "-m", "comment", "--comment", "default/kubernetes:https cluster IP", "-m", "tcp", "--dport", "443", "-j", "RETURN")
		run("-A", "OUTPUT", "-j", "KUBE-SERVICES")
		run("-A", "POSTROUTING", "-s", "172.17.0.0/16", "!", "-o", "docker0", "-j", "MASQUERADE")
		run("-N", "KUBE-HPX-NOTOURS")
	case "stale":
		// chains and rules a previous galaxy left behind for a pod that no longer exists
		run("-N", "KUBE-MARK-MASQ")
		run("-N", "KUBE-HOSTPORTS")
		run("-N", "KUBE-HP-STALESTALESTALE1")
		run("-A", "KUBE-HP-STALESTALESTALE1", "-s", "10.0.0.99/32", "-m", "comment", "--comment", "gone hostport 42099", "-j", "KUBE-MARK-MASQ")
		run("-A", "KUBE-HP-STALESTALESTALE1", "-p", "tcp", "-m", "comment", "--comment", "gone hostport 42099", "-m", "tcp", "-j", "DNAT", "--to-destination", "10.0.0.99:80")
		run("-A", "KUBE-HOSTPORTS", "-p", "tcp", "-m", "comment", "--comment", "gone hostport 42099", "-m", "tcp", "--dport", "42099", "-j", "KUBE-HP-STALESTALESTALE1")
		run("-N", "KUBE-HP-EMPTYEMPTYEMPTY1")
	}
	k.Cmds, k.Rejected = nil, nil
}

// pmPods is the menu of pods (port lists). base makes host ports unique per worker.
func pmPods(base int32) map[string][]k8s.Port {
	return map[string][]k8s.Port{
		"x":  {{HostPort: base + 1, ContainerPort: 80, Protocol: "TCP", PodName: "x", PodIP: "10.0.0.2"}},
		"x2": {{HostPort: base + 1, ContainerPort: 80, Protocol: "TCP", PodName: "x", PodIP: "10.0.0.9"}}, // x re-created with a new IP: same chain name, other content
		"y":  {{HostPort: base + 2, ContainerPort: 8080, Protocol: "UDP", PodName: "y", PodIP: "10.0.0.3", HostIP: "10.1.1.1"}, {HostPort: base + 3, ContainerPort: 80, Protocol: "TCP", PodName: "y", PodIP: "10.0.0.3"}},
		"z":  {{HostPort: base + 1, ContainerPort: 8080, Protocol: "UDP", PodName: "z", PodIP: "10.0.0.4"}},                  // same host port number as x, other protocol
		"v":  {{HostPort: base + 4, ContainerPort: 80, Protocol: "TCP", PodName: "v", PodIP: "10.0.0.5", HostIP: "0.0.0.0"}}, // the wildcard address as host IP
	}
}

type pmOp struct {
	Kind string // basic, setup, clean, fullsync
	Pods []string
}

func (o pmOp) String() string { return o.Kind + "(" + strings.Join(o.Pods, ",") + ")" }

func (s *pmSys) apply(o pmOp, pods map[string][]k8s.Port) error {
	var ports []k8s.Port
	for _, p := range o.Pods {
		ports = append(ports, append([]k8s.Port{}, pods[p]...)...)
	}
	s.log = append(s.log, o.String())
	switch o.Kind {
	case "basic":
		return s.h.EnsureBasicRule()
	case "setup":
		return s.h.SetupPortMapping(ports)
	case "clean":
		return s.h.CleanPortMapping(ports)
	case "fullsync":
		return s.h.SetupPortMappingForAllPods(ports)
	}
	return nil
}

// natParts splits the NAT table into: per-chain text of galaxy-owned chains, and everything else (foreign), byte for byte.
func natParts(k *nfsim.Kernel) (owned map[string]string, hostports []string, foreign string) {
	owned = map[string]string{}
	var fb strings.Builder
	for _, line := range strings.Split(k.Save("nat"), "\n") {
		f := strings.Fields(line)
		switch {
		case strings.HasPrefix(line, ":KUBE-HP-"), strings.HasPrefix(line, ":KUBE-HOSTPORTS "), strings.HasPrefix(line, ":KUBE-MARK-MASQ "):
			name := strings.TrimPrefix(f[0], ":")
			if _, ok := owned[name]; !ok {
				owned[name] = ""
			}
		case len(f) > 1 && f[0] == "-A" && f[1] == "KUBE-HOSTPORTS":
			hostports = append(hostports, line)
		case len(f) > 1 && f[0] == "-A" && (strings.HasPrefix(f[1], "KUBE-HP-") || f[1] == "KUBE-MARK-MASQ"):
			owned[f[1]] += line + "\n"
		case strings.Contains(line, "-j KUBE-HOSTPORTS"):
			// the two base jump rules in PREROUTING/OUTPUT belong to galaxy
		default:
			fb.WriteString(line + "\n")
		}
	}
	return owned, hostports, fb.String()
}

func pmCanon(k *nfsim.Kernel) string { return k.Save("nat") }

func benignReject(r string) bool {
	return strings.Contains(r, " -C ") || (strings.Contains(r, " -N ") && strings.Contains(r, "Chain already exists"))
}

// pmRef computes, on an empty kernel, what the full sync of the given pods installs (galaxy-owned part).
func pmRef(pods map[string][]k8s.Port, sel []string) (map[string]string, []string) {
	s := newPM("empty")
	_ = s.apply(pmOp{"fullsync", sel}, pods)
	owned, hp, _ := natParts(s.k)
	sort.Strings(hp)
	return owned, hp
}

func c14Job(prior string, base int32, depth int) Job {
	name := "nat-histories/prior=" + prior
	return Job{Name: name, Weight: 2, Run: func(deadline time.Time) *ScenResult {
		t0 := time.Now()
		r := newCaseResult()
		pods := pmPods(base)
		podSets := [][]string{{}, {"x"}, {"y"}, {"x", "y"}, {"x2"}, {"x", "z"}, {"x2", "y"}, {"x", "v"}}
		var alphabet []pmOp
		alphabet = append(alphabet, pmOp{"basic", nil})
		for _, p := range []string{"x", "y", "x2", "z", "v"} {
			alphabet = append(alphabet, pmOp{"setup", []string{p}}, pmOp{"clean", []string{p}})
		}
		for _, ps := range podSets {
			alphabet = append(alphabet, pmOp{"fullsync", ps})
		}
		type node struct{ hist []pmOp }
		build := func(hist []pmOp) *pmSys {
			s := newPM(prior)
			for _, o := range hist {
				_ = s.apply(o, pods)
			}
			return s
		}
		seen := map[string]bool{pmCanon(build(nil).k): true}
		frontier := []node{{}}
		states, transitions, maxDepth := 1, 0, 0
		for d := 0; d < depth && len(frontier) > 0; d++ {
			var next []node
			for _, n := range frontier {
				if time.Now().After(deadline) {
					r.exhausted = false
					break
				}
				pre := build(n.hist)
				_, _, foreignBefore := natParts(pre.k)
				ownedBefore, hpBefore, _ := natParts(pre.k)
				for _, o := range alphabet {
					hist := append(append([]pmOp{}, n.hist...), o)
					s := build(n.hist)
					s.k.Cmds, s.k.Rejected = nil, nil
					err := s.apply(o, pods)
					transitions++
					r.evals++
					if d+1 > maxDepth {
						maxDepth = d + 1
					}
					desc := fmt.Sprintf("prior=%s %v", prior, hist)
					c14Check(r, name, desc, o, pods, s, err, foreignBefore, ownedBefore, hpBefore)
					c := pmCanon(s.k)
					if !seen[c] {
						seen[c] = true
						states++
						next = append(next, node{hist})
						if len(r.samples) < 3 && states%23 == 3 {
							r.samples = append(r.samples, desc)
						}
					}
				}
			}
			frontier = next
		}
		sr := r.toScen(name, t0, map[string]int{"depth": depth})
		sr.States, sr.Transitions, sr.MaxDepth = states, transitions, maxDepth
		return sr
	}}
}

func c14Check(r *caseResult, scen, desc string, o pmOp, pods map[string][]k8s.Port, s *pmSys, err error, foreignBefore string, ownedBefore map[string]string, hpBefore []string) {
	class := o.Kind
	for _, rej := range s.k.Rejected {
		if !benignReject(rej) {
			// cleaning a mapping that is not there is refused by the kernel and reported as an error by galaxy: not a violation by itself
			if o.Kind == "clean" && err != nil {
				continue
			}
			if (o.Kind == "setup") && err != nil && strings.Contains(rej, "No chain/target/match") && !hasChain(ownedBefore, "KUBE-HOSTPORTS") {
				continue // set-up before the base chain exists fails cleanly (the daemon always runs the full sync first)
			}
			r.violate("C14", scen, class, "kernel-rejected-a-command", "restore", fmt.Sprintf("%s: %s (op error: %v)", desc, rej, err), []string{desc})
		}
	}
	owned, hp, foreign := natParts(s.k)
	if foreign != foreignBefore {
		r.violate("C14", scen, class, "foreign-rules-changed", o.Kind, fmt.Sprintf("%s:\nbefore:\n%s\nafter:\n%s", desc, foreignBefore, foreign), []string{desc})
	}
	sort.Strings(hp)
	switch o.Kind {
	case "fullsync":
		if err != nil {
			r.violate("C14", scen, class, "full-sync-failed", "fullsync", fmt.Sprintf("%s: %v", desc, err), []string{desc})
			return
		}
		refOwned, refHP := pmRef(pods, o.Pods)
		if fmt.Sprint(refHP) != fmt.Sprint(hp) {
			r.violate("C14", scen, class, "full-sync-hostports-chain-differs-from-canonical", "fullsync", fmt.Sprintf("%s:\ngot  %v\nwant %v", desc, hp, refHP), []string{desc})
		}
		if fmt.Sprint(mapLines(refOwned)) != fmt.Sprint(mapLines(owned)) {
			r.violate("C14", scen, class, "full-sync-chains-differ-from-canonical", "fullsync", fmt.Sprintf("%s:\ngot  %v\nwant %v", desc, mapLines(owned), mapLines(refOwned)), []string{desc})
		}
	case "setup", "clean":
		if err != nil {
			return
		}
		// the chains of the named pod(s)
		refOwned, refHP := pmRef(pods, o.Pods)
		for name, want := range refOwned {
			if name == "KUBE-HOSTPORTS" || name == "KUBE-MARK-MASQ" {
				continue
			}
			got, ok := owned[name]
			if o.Kind == "setup" && (!ok || got != want) {
				r.violate("C14", scen, class, "pod-chain-differs-after-setup", "setup", fmt.Sprintf("%s: chain %s\ngot  %q\nwant %q", desc, name, got, want), []string{desc})
			}
			if o.Kind == "clean" && ok {
				r.violate("C14", scen, class, "pod-chain-left-behind-after-clean", "clean", fmt.Sprintf("%s: chain %s still there: %q", desc, name, got), []string{desc})
			}
		}
		for _, line := range refHP {
			present := false
			n := 0
			for _, l := range hp {
				if l == line {
					present = true
					n++
				}
			}
			if o.Kind == "setup" && (!present || n != 1) {
				r.violate("C14", scen, class, "hostports-jump-missing-or-duplicated", "setup", fmt.Sprintf("%s: %q appears %d times in %v", desc, line, n, hp), []string{desc})
			}
			if o.Kind == "clean" && present {
				r.violate("C14", scen, class, "hostports-jump-left-behind", "clean", fmt.Sprintf("%s: %q", desc, line), []string{desc})
			}
		}
		// everything else galaxy-owned (other pods) is unchanged
		for name, before := range ownedBefore {
			if _, mine := refOwned[name]; mine {
				continue
			}
			if after, ok := owned[name]; !ok || after != before {
				r.violate("C14", scen, class, "other-pods-chain-changed", o.Kind, fmt.Sprintf("%s: chain %s before %q after %q", desc, name, before, after), []string{desc})
			}
		}
		mine := map[string]bool{}
		for _, l := range refHP {
			mine[l] = true
		}
		var ob, oa []string
		for _, l := range hpBefore {
			if !mine[l] {
				ob = append(ob, l)
			}
		}
		for _, l := range hp {
			if !mine[l] {
				oa = append(oa, l)
			}
		}
		sort.Strings(ob)
		sort.Strings(oa)
		if fmt.Sprint(ob) != fmt.Sprint(oa) {
			r.violate("C14", scen, class, "other-pods-hostports-rules-changed", o.Kind, fmt.Sprintf("%s: before %v after %v", desc, ob, oa), []string{desc})
		}
	}
	r.distinct[hashOf(o.String(), pmCanon(s.k))] = true
}

func hasChain(m map[string]string, n string) bool { _, ok := m[n]; return ok }

func mapLines(m map[string]string) []string {
	var out []string
	for k, v := range m {
		out = append(out, k+"{"+strings.ReplaceAll(v, "\n", ";")+"}")
	}
	sort.Strings(out)
	return out
}

// ---------------------------------------------------------------------------------------------
// host ports are really held

func tryBind(proto string, port int32) error {
	switch proto {
	case "tcp":
		l, err := net.Listen("tcp", fmt.Sprintf(":%d", port))
		if err != nil {
			return err
		}
		return l.Close()
	default:
		a, _ := net.ResolveUDPAddr("udp", fmt.Sprintf(":%d", port))
		c, err := net.ListenUDP("udp", a)
		if err != nil {
			return err
		}
		return c.Close()
	}
}

func c14PortsJob(base int32) Job {
	name := "hostports/open-hold-close"
	return Job{Name: name, Weight: 1, Run: func(deadline time.Time) *ScenResult {
		t0 := time.Now()
		r := newCaseResult()
		type pp struct {
			host  int32
			proto string
		}
		menu := []pp{{0, "TCP"}, {0, "UDP"}, {base + 11, "TCP"}, {base + 11, "UDP"}, {base + 12, "TCP"}}
		// all pod port lists of length 1..3 for pod a, then pod b asks for a subset; random mapping on/off
		var lists [][]pp
		for i := range menu {
			lists = append(lists, []pp{menu[i]})
			for j := range menu {
				if j != i {
					lists = append(lists, []pp{menu[i], menu[j]})
				}
			}
		}
		mk := func(pod string, l []pp) []k8s.Port {
			var out []k8s.Port
			for _, p := range l {
				out = append(out, k8s.Port{HostPort: p.host, ContainerPort: 80, Protocol: p.proto, PodName: pod, PodIP: "10.0.0.2"})
			}
			return out
		}
		for _, la := range lists {
			for _, lb := range lists {
				for _, random := range []bool{true, false} {
					if time.Now().After(deadline) {
						r.exhausted = false
						return r.toScen(name, t0, nil)
					}
					h := portmapping.NewVerif(utiliptables.New(nfsim.New().Exec(), utiliptables.ProtocolIpv4), "")
					pa, pb := mk("a", la), mk("b", lb)
					desc := fmt.Sprintf("a=%v b=%v random=%v", la, lb, random)
					errA := h.OpenHostports("ns_a", random, pa)
					errB := h.OpenHostports("ns_b", random, pb)
					r.evals++
					r.distinct[hashOf(desc, errA == nil, errB == nil)] = true
					if len(r.samples) < 3 && r.evals%37 == 1 {
						r.samples = append(r.samples, fmt.Sprintf("%s -> a:%v b:%v ports a=%v b=%v", desc, errA, errB, pa, pb))
					}
					held := map[string]string{}
					check := func(pod string, err error, ports []k8s.Port) {
						if err != nil {
							// a failed set-up leaves no port of that pod open
							for _, o := range h.VerifOpenPorts() {
								if strings.HasPrefix(o, "ns_"+pod+" ") {
									r.violate("C14", name, "ports", "port-left-open-after-failed-setup", "OpenHostports", desc+": "+o, []string{desc})
								}
							}
							return
						}
						for _, p := range ports {
							if p.HostPort <= 0 {
								if p.HostPort == 0 && random {
									r.violate("C14", name, "ports", "random-port-not-assigned", "OpenHostports", desc, []string{desc})
								}
								continue
							}
							k := fmt.Sprintf("%s:%d", strings.ToLower(p.Protocol), p.HostPort)
							if other, dup := held[k]; dup {
								r.violate("C14", name, "ports", "host-port-handed-out-twice", "OpenHostports", fmt.Sprintf("%s: %s to %s and %s", desc, k, other, pod), []string{desc})
							}
							held[k] = pod
							if tryBind(strings.ToLower(p.Protocol), p.HostPort) == nil {
								r.violate("C14", name, "ports", "host-port-not-held", "OpenHostports", fmt.Sprintf("%s: an independent bind on %s succeeded while the pod is up", desc, k), []string{desc})
							}
						}
					}
					check("a", errA, pa)
					check("b", errB, pb)
					h.CloseHostports("ns_a")
					h.CloseHostports("ns_b")
					for k := range held {
						var port int32
						var proto string
						fmt.Sscanf(strings.Replace(k, ":", " ", 1), "%s %d", &proto, &port)
						if err := tryBind(proto, port); err != nil {
							r.violate("C14", name, "ports", "host-port-still-bound-after-teardown", "CloseHostports", fmt.Sprintf("%s: %s: %v", desc, k, err), []string{desc})
						}
					}
					if len(h.VerifOpenPorts()) != 0 {
						r.violate("C14", name, "ports", "ports-leaked-after-teardown", "CloseHostports", fmt.Sprintf("%s: %v", desc, h.VerifOpenPorts()), []string{desc})
					}
				}
			}
		}
		sr := r.toScen(name, t0, map[string]int{"port_lists": len(lists)})
		sr.States, sr.Transitions = len(r.distinct), r.evals
		return sr
	}}
}

func init() {
	base := int32(42000 + (os.Getpid()%200)*20)
	register(&Property{ID: "C14", Level: "model_checking", QuickS: 100, ThoroughS: 600,
		Assume: []string{"netfilter is the exec-level simulator mc/nfsim (atomic restore, chain-line flush under --noflush, reference checks on -X/-j); the repository's iptables runner and save/restore parsers run on top of it",
			"pods: x, x re-created with a new IP (same chain name), y (two ports, one with hostIP), z (same port number, other protocol), v (host IP 0.0.0.0); prior NAT tables: empty, foreign chains/rules, stale galaxy chains",
			"host ports are real sockets on this machine (port numbers offset per process)"},
		Rule: "BFS over histories of {ensure-basic, setup(p), clean(p), fullsync(S)} for p in {x,x2,y,z}, 7 pod sets S, from each prior NAT table; state = iptables-save of the NAT table; every transition is checked against " +
			"the differential reference (the same pods synced on an empty kernel) for the named pods, byte-for-byte equality for other pods' and foreign chains, and for kernel-rejected commands; plus the daemon's start-up synchronisation (setupIPtables over the listed pods, every assignment of three port shapes to the pod names, with and without the port-mapping annotation, NAT table kept / emptied / holding a vanished pod's chains) against the table the set-ups had produced; plus exhaustive open/hold/close of host-port lists for two pods, and every schedule (preemption-bounded) of overlapping set-up / tear-down on one handler against the sequential orders of the same operations",
		Jobs: func(tier string) []Job {
			depth := 4
			if tier == "thorough" {
				depth = 5
			}
			xd := 2
			if tier == "thorough" {
				xd = 3
			}
			var dj []Job
			for s := 0; s < 8; s++ {
				dj = append(dj, c14DaemonJob(s, 8, base, tier))
			}
			dj = append(dj, c14DaemonFaultJob(base))
			dj = append(dj, c14DaemonRestartJob(base))
			return append(dj, c14Job("empty", base, depth), c14Job("foreign", base, depth), c14Job("stale", base, depth), c14PortsJob(base), c14ConcurrentPortsJob(base, tier),
				c14XCheckJob("empty", base, xd), c14XCheckJob("foreign", base, xd), c14XCheckJob("stale", base, xd))
		}})
	replayers["C14"] = replayDescOnly
	_ = json.Marshal
	_ = coop.IsManaged
}

// ---------------------------------------------------------------------------------------------
// host ports under overlapping set-up and tear-down (coop): every schedule of the handler's lock operations

type hpOp struct {
	open   bool
	name   string
	ports  []int32 // tcp host ports
	random bool
}

func (o hpOp) String() string {
	if o.open {
		return fmt.Sprintf("open(%s,%v)", o.name, o.ports)
	}
	return "close(" + o.name + ")"
}

type hpOutcome struct {
	tracked string          // sorted VerifOpenPorts
	bound   map[int32]bool  // which menu ports refuse an independent bind
	results string          // per operation: ok / failed
	errs    map[string]bool // names whose open failed
}

func c14ConcurrentPortsJob(base int32, tier string) Job {
	name := "hostports/overlapping-setup-teardown"
	return Job{Name: name, Weight: 2, Run: func(deadline time.Time) *ScenResult {
		t0 := time.Now()
		old := debug.SetGCPercent(-1)
		defer debug.SetGCPercent(old)
		A, B := base+15, base+16
		menu := []int32{A, B}
		type scen struct {
			name    string
			setup   []hpOp
			threads []hpOp
		}
		scens := []scen{
			// the old incarnation of a pod is torn down while the re-created pod of the same name is set up
			{"close(p)||open(p,B)", []hpOp{{open: true, name: "ns_p", ports: []int32{A}}}, []hpOp{{name: "ns_p"}, {open: true, name: "ns_p", ports: []int32{B}}}},
			{"close(p)||open(p,A)", []hpOp{{open: true, name: "ns_p", ports: []int32{A}}}, []hpOp{{name: "ns_p"}, {open: true, name: "ns_p", ports: []int32{A}}}},
			{"close(p)||close(p)||open(q,A)", []hpOp{{open: true, name: "ns_p", ports: []int32{A}}}, []hpOp{{name: "ns_p"}, {name: "ns_p"}, {open: true, name: "ns_q", ports: []int32{A}}}},
			{"open(p,A)||open(q,A)", nil, []hpOp{{open: true, name: "ns_p", ports: []int32{A}}, {open: true, name: "ns_q", ports: []int32{A}}}},
			{"open(p,A)||open(q,B)||close(r)", []hpOp{{open: true, name: "ns_r", ports: []int32{B}}}, []hpOp{{open: true, name: "ns_p", ports: []int32{A}}, {open: true, name: "ns_q", ports: []int32{B}}, {name: "ns_r"}}},
		}
		bounds := map[string]int{"preempt": 2}
		if tier == "thorough" {
			bounds["preempt"] = 3
		}
		total := &ScenResult{Scenario: name, Class: "ports", Bounds: bounds, Exhaustive: true}
		// wait until no menu port is bound any more (sockets dropped without Close are released by their finalizers)
		settle := func() bool {
			for i := 0; i < 200; i++ {
				free := true
				for _, p := range menu {
					if tryBind("tcp", p) != nil {
						free = false
					}
				}
				if free {
					return true
				}
				runtime.GC()
				time.Sleep(time.Millisecond)
			}
			return false
		}
		apply := func(h *portmapping.PortMappingHandler, o hpOp) error {
			if !o.open {
				h.CloseHostports(o.name)
				return nil
			}
			var ps []k8s.Port
			for _, p := range o.ports {
				ps = append(ps, k8s.Port{HostPort: p, ContainerPort: 80, Protocol: "TCP", PodName: o.name, PodIP: "10.0.0.2"})
			}
			return h.OpenHostports(o.name, o.random, ps)
		}
		observe := func(h *portmapping.PortMappingHandler, res []string) hpOutcome {
			tr := h.VerifOpenPorts()
			sort.Strings(tr)
			out := hpOutcome{tracked: strings.Join(tr, ","), bound: map[int32]bool{}, results: strings.Join(res, ",")}
			for _, p := range menu {
				out.bound[p] = tryBind("tcp", p) != nil
			}
			return out
		}
		for _, sc := range scens {
			sc := sc
			// reference: the same operations in every sequential order on the real handler
			var allowed []hpOutcome
			perm := make([]int, len(sc.threads))
			for i := range perm {
				perm[i] = i
			}
			var rec func(k int)
			rec = func(k int) {
				if k == len(perm) {
					if !settle() {
						panic("host ports of the harness stay bound")
					}
					h := portmapping.NewVerif(utiliptables.New(nfsim.New().Exec(), utiliptables.ProtocolIpv4), "")
					for _, o := range sc.setup {
						_ = apply(h, o)
					}
					res := make([]string, len(sc.threads))
					for _, i := range perm {
						res[i] = fmt.Sprint(apply(h, sc.threads[i]) == nil)
					}
					allowed = append(allowed, observe(h, res))
					return
				}
				for i := k; i < len(perm); i++ {
					perm[k], perm[i] = perm[i], perm[k]
					rec(k + 1)
					perm[k], perm[i] = perm[i], perm[k]
				}
			}
			rec(0)
			e := &coop.Explorer{Bounds: bounds, Deadline: deadline, Name: name + "/" + sc.name}
			res := e.Explore(func(x *coop.Exec) coop.Outcome {
				if !settle() {
					return coop.Outcome{Err: fmt.Errorf("host ports of the harness stay bound"), Signature: "C14|harness||"}
				}
				h := portmapping.NewVerif(utiliptables.New(nfsim.New().Exec(), utiliptables.ProtocolIpv4), "")
				for _, o := range sc.setup {
					_ = apply(h, o)
				}
				s := coop.NewSched(x)
				results := make([]string, len(sc.threads))
				for i, o := range sc.threads {
					i, o := i, o
					s.Go(fmt.Sprintf("%s#%d", o, i), func() { results[i] = fmt.Sprint(apply(h, o) == nil) })
				}
				s.Run()
				out := coop.Outcome{Trace: s.TraceStrings(), Nontrivial: true}
				if s.Deadlock {
					out.Err = fmt.Errorf("deadlock")
					out.Signature = "C14|deadlock|" + sc.name + "|ports"
					return out
				}
				if s.Err != nil {
					out.Err = s.Err
					out.Signature = "C14|error|" + sc.name + "|ports"
					return out
				}
				got := observe(h, results)
				out.StateHash = hashOf(got.tracked, fmt.Sprint(got.bound), got.results)
				// the set of held ports must be the one of some sequential order of the same operations: same tracked ports and
				// results, every tracked port really bound, nothing bound that the sequential order does not leave bound
				ok := false
				for _, a := range allowed {
					if a.tracked != got.tracked || a.results != got.results {
						continue
					}
					fits := true
					for _, p := range menu {
						if got.bound[p] && !a.bound[p] {
							fits = false
						}
						if strings.Contains(got.tracked, fmt.Sprintf("tcp:%d", p)) && !got.bound[p] {
							fits = false
						}
					}
					if fits {
						ok = true
					}
				}
				if !ok {
					var al []string
					for _, a := range allowed {
						al = append(al, fmt.Sprintf("{tracked [%s] results [%s] bound %v}", a.tracked, a.results, a.bound))
					}
					out.Err = fmt.Errorf("held-ports-match-no-sequential-order: %s after setup %v: tracked [%s] results [%s] bound %v; sequential orders give %s",
						sc.name, sc.setup, got.tracked, got.results, got.bound, strings.Join(al, " "))
					out.Signature = "C14|held-ports-match-no-sequential-order|" + sc.name + "|ports"
				}
				return out
			})
			total.Executions += res.Executions
			total.Diverged += res.Diverged
			total.Exhaustive = total.Exhaustive && res.Exhaustive
			if res.StoppedByLimit != "" {
				total.Stopped = res.StoppedByLimit
			}
			if res.MaxPoints > total.MaxPoints {
				total.MaxPoints = res.MaxPoints
			}
			total.Samples = append(total.Samples, res.SampleTraces...)
			total.Violations = append(total.Violations, res.Violations...)
			for hsh := range res.Distinct {
				total.Distinct = append(total.Distinct, sc.name+hsh)
				total.Nontrivial = append(total.Nontrivial, sc.name+hsh)
			}
		}
		settle()
		total.WallS = time.Since(t0).Seconds()
		return total
	}}
}
