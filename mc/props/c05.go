package props

import (
	"encoding/json"
	"fmt"
	"time"

	"verif.local/mc/coop"
	"verif.local/mc/world"
)

// C05: for every transition (history, op) of the BFS graph and every API-call index k of op:
//   fault k  : the k-th call fails without effect -> after the op memory == store; a restarted instance == the old one
//   crash k- : the process dies right before the k-th call -> restart; resync -> recovery oracle
//   crash k+ : the process dies right after the k-th call  -> restart; resync -> recovery oracle

func agreeMemStore(w *world.World) *Finding { return agreeMemStoreExcept(w, nil) }

// agreeMemStoreExcept is agreeMemStore ignoring store objects of the IPs in skip.
func agreeMemStoreExcept(w *world.World, skip map[string]bool) *Finding {
	mem, f := memByIP(w)
	if f != nil {
		return f
	}
	st := storeByIP(w)
	for ip, m := range mem {
		so, ok := st[ip]
		if m.Alloc != ok {
			return &Finding{Clause: "memory-store-disagree", Detail: fmt.Sprintf("%s: memory {%v} store present=%v {%v}", ip, m, ok, so)}
		}
		if ok && (so.Key != m.Key || so.Policy != m.Policy || so.Node != m.Node || so.UID != m.UID) {
			return &Finding{Clause: "memory-store-disagree", Detail: fmt.Sprintf("%s: memory {%v} store {%v}", ip, m, so)}
		}
	}
	for ip, so := range st {
		if _, ok := mem[ip]; !ok && !skip[ip] {
			return &Finding{Clause: "store-object-unknown-to-memory", Detail: fmt.Sprintf("%v", so)}
		}
	}
	return nil
}

func dumpNoTime(d []world.IPState) string {
	c := make([]world.IPState, len(d))
	copy(c, d)
	// PoolDesc is kept: a restarted instance must attach every IP to the same pool
	out := ""
	for i := range c {
		out += c[i].String() + " pool=" + c[i].PoolDesc + "; "
	}
	return out
}

func restartCompare(w *world.World) *Finding {
	before := dumpNoTime(w.MemDump())
	if err := w.Restart(); err != nil {
		return &Finding{Clause: "restart-failed", Detail: err.Error()}
	}
	if after := dumpNoTime(w.MemDump()); after != before {
		return &Finding{Clause: "restart-reconstructs-different-state", Detail: fmt.Sprintf("before %s after %s", before, after)}
	}
	return nil
}

// recoveryOracle is evaluated after crash; restart; resync.
func recoveryOracle(h *HistSys, w *world.World) *Finding {
	if f := agreeMemStore(w); f != nil {
		return f
	}
	if f := oracleC01(w, nil, false); f != nil {
		return f
	}
	if f := oracleC04(w, nil, false); f != nil {
		f.Clause = "bound-pod-lost-ip-after-crash"
		return f
	}
	mem := w.MemDump()
	cnt := prefixCounter(mem)
	for _, s := range mem {
		if !s.Alloc {
			continue
		}
		if ok, why := policyAllows(h, w, s, cnt, false); !ok {
			if isKnownReserveLeak(s) {
				continue // C03's known finding (immutable deployment reserve key), not a crash effect
			}
			return &Finding{Clause: "leak-after-crash-recovery", Detail: fmt.Sprintf("%v (%s)", s, why)}
		}
	}
	return nil
}

func isKnownReserveLeak(s world.IPState) bool {
	return keyShape(s.Key) == "dp-reserve" && s.Policy == 1
}

func runCrashing(f func()) (crashed bool) {
	defer func() {
		if r := recover(); r != nil {
			if _, ok := r.(coop.CrashSentinel); ok {
				crashed = true
				return
			}
			panic(r)
		}
	}()
	f()
	return false
}

func c05Job(h *HistSys, depth int, crash bool) Job {
	name := "faults/" + h.Class.String()
	if crash {
		name = "crashes/" + h.Class.String()
	}
	if h.PrefixName != "" {
		name += "@" + h.PrefixName
	}
	return Job{Name: name, Weight: 3, Run: func(deadline time.Time) *ScenResult {
		t0 := time.Now()
		evals := 0
		distinct := map[string]bool{}
		var viols []histViolation
		sigSeen := map[string]bool{}
		var samples []string
		add := func(hist []Op, f *Finding, mode string, k int) {
			f.Culprit = fmt.Sprintf("%s:%s", hist[len(hist)-1].Kind, mode)
			f.Detail = fmt.Sprintf("%s with %s at API call %d: %s", histString(hist), mode, k, f.Detail)
			sig := f.Clause + "|" + f.Culprit
			if !sigSeen[sig] {
				sigSeen[sig] = true
				viols = append(viols, histViolation{append([]Op{}, hist...), f})
			}
		}
		per := func(hist []Op, w2 *world.World, obs Obs) {
			n := obs.APIn
			if !crash {
				// the fault-free successor itself: agreement after every completed operation, restart equivalence
				evals++
				if f := agreeMemStore(w2); f != nil {
					add(hist, f, "nofault", 0)
				} else if n > 0 || len(hist) == 1 {
					w, _, _ := BuildHist(h, hist)
					if f := restartCompare(w); f != nil {
						add(hist, f, "nofault", 0)
					}
				}
			}
			if n == 0 {
				return
			}
			pre := hist[:len(hist)-1]
			op := hist[len(hist)-1]
			for k := 1; k <= n; k++ {
				if !crash {
					w, _, _ := BuildHist(h, pre)
					w.ResetFault(k)
					h.Apply(w, op)
					w.ResetFault(0)
					evals++
					c := Canon(w)
					if c != Canon(w2) {
						distinct[hashOf(histString(hist), k, c)] = true
					}
					if len(samples) < 3 && evals%211 == 1 {
						samples = append(samples, fmt.Sprintf("%s with the %d-th of %d API calls failing: %v", histString(hist), k, n, tail(w.APILog, n+1)))
					}
					if f := agreeMemStore(w); f != nil {
						add(hist, f, "fault", k)
						continue
					}
					if f := restartCompare(w); f != nil {
						add(hist, f, "fault", k)
					}
					continue
				}
				for _, after := range []bool{false, true} {
					w, _, _ := BuildHist(h, pre)
					w.ResetFault(0)
					w.CrashAt, w.CrashAfter = k, after
					crashed := runCrashing(func() { h.Apply(w, op) })
					mode := "crash-before"
					if after {
						mode = "crash-after"
					}
					evals++
					if !crashed {
						continue
					}
					if err := w.Restart(); err != nil {
						add(hist, &Finding{Clause: "restart-failed", Detail: err.Error()}, mode, k)
						continue
					}
					_ = w.Resync()
					w.SyncPodIPs()
					distinct[hashOf(histString(hist), k, after, Canon(w))] = true
					if len(samples) < 3 && evals%197 == 1 {
						samples = append(samples, fmt.Sprintf("%s with %s API call %d of %d; restart; resync", histString(hist), mode, k, n))
					}
					if f := recoveryOracle(h, w); f != nil {
						add(hist, f, mode, k)
					}
				}
			}
		}
		r := bfsObs(h, depth, deadline, per)
		sr := &ScenResult{Scenario: name, Class: h.Class.String(), Executions: evals, States: r.States, Transitions: r.Transitions, MaxDepth: r.MaxDepth,
			Exhaustive: r.Exhaustive, Stopped: r.Stopped, WallS: time.Since(t0).Seconds(), Bounds: map[string]int{"depth": depth, "faults": 1}}
		for d := range distinct {
			sr.Distinct = append(sr.Distinct, d)
			sr.Nontrivial = append(sr.Nontrivial, d)
		}
		for _, s := range samples {
			j, _ := json.Marshal(map[string]string{"scenario": name, "case": s})
			sr.SampleObjs = append(sr.SampleObjs, j)
		}
		for _, v := range viols {
			sr.Violations = append(sr.Violations, histToViolation("C05", name, h, v))
		}
		return sr
	}}
}

// bfsObs is BFS with a per-transition callback that also receives the observation.
func bfsObs(h *HistSys, depth int, deadline time.Time, per func(hist []Op, w *world.World, obs Obs)) *BFSResult {
	return BFS(h, depth, deadline, func(h *HistSys, hist []Op, w *world.World, obs Obs) *Finding {
		per(hist, w, obs)
		return nil
	}, nil)
}

func c05Systems() []*HistSys {
	ops := map[string]bool{"create": true, "sched": true, "delete": true, "finish": true, "deliver": true, "resync": true, "scale": true, "apirelease": true, "restart": false}
	var out []*HistSys
	classes := append(append([]wkClass{}, histClasses...), wkClass{"stsmulti", ""}, wkClass{"stsmulti", "immutable"})
	for _, c := range classes {
		out = append(out, &HistSys{Class: c, Cfg: cfgTwoPools(false), NPods: 2, Replicas: 2, Ops: ops})
		if c.Kind == "stsmulti" {
			continue // the multi-IP classes are explored from the initial state only
		}
		out = append(out, &HistSys{Class: c, Cfg: cfgTwoPools(false), NPods: 2, Replicas: 2, Ops: ops, PrefixName: "allbound",
			Prefix: []Op{{Kind: "create", A: 0}, {Kind: "sched", A: 0}, {Kind: "create", A: 1}, {Kind: "sched", A: 1}}})
	}
	return out
}

func init() {
	register(&Property{ID: "C05", Level: "fault_enumeration", QuickS: 170, ThoroughS: 1200,
		Assume: append([]string{"single fault (error without effect) or single crash per operation; restart = new plugin over the same API objects, pod events pending at the crash are lost"}, assumeIPAM...),
		Rule: "for every transition (history, op) of the history BFS (depth in `bounds`) and every index k of an API-server call made by op: re-execute with the k-th call failing (memory/store agreement, " +
			"restart reconstructs the same tables) and with the process dying right before / right after the k-th call (restart; resync; recovery oracle); one evaluation = one re-execution; " +
			"plus, at the IPAM interface itself, every writing method over a small argument menu from five allocation states with every API call failing; distinct/non-trivial = distinct (history, k, resulting canonical state) triples whose state differs from the fault-free successor (faults) resp. in which the crash actually fired (crashes)",
		Jobs: func(tier string) []Job {
			depth := 6
			if tier == "thorough" {
				depth = 8
			}
			var jobs []Job
			for _, h := range c05Systems() {
				d := depth
				if h.Class.Kind == "stsmulti" {
					d = depth - 1
				}
				jobs = append(jobs, c05Job(h, d, false), c05Job(h, d, true))
			}
			return append(jobs, c05IpamJob())
		}})
	replayers["C05"] = func(tier string, v coop.Violation) int {
		fmt.Println("history:", v.Trace)
		fmt.Println(v.Error)
		fmt.Println("(C05 counterexamples are replayed by re-running the check: the failing (history, op, k, mode) is printed in the error text)")
		return 2
	}
}
