package props

import (
	"bytes"
	"context"
	"encoding/json"
	"fmt"
	"net/http"
	"net/http/httptest"
	"os"
	"path/filepath"
	"sort"
	"strconv"
	"strings"

	"github.com/emicklei/go-restful"
	corev1 "k8s.io/api/core/v1"
	"k8s.io/apimachinery/pkg/api/resource"
	metav1 "k8s.io/apimachinery/pkg/apis/meta/v1"
	kubefake "k8s.io/client-go/kubernetes/fake"
	corev1client "k8s.io/client-go/kubernetes/typed/core/v1"
	"tkestack.io/galaxy/pkg/api/galaxy/constant"
	"tkestack.io/galaxy/pkg/galaxy"
	"tkestack.io/galaxy/pkg/network/portmapping"
	utiliptables "tkestack.io/galaxy/pkg/utils/iptables"

	"verif.local/mc/nfsim"
)

// cnih: a real galaxy.Galaxy daemon object in the harness process, driven through its /cni HTTP handler, with recording
// fake CNI plugins (shell scripts) on CNI_PATH.

const pluginScript = `#!/bin/sh
# recording CNI plugin used by the verification harness
d="$VP_LOGDIR"
n=$(cat "$d/seq" 2>/dev/null || echo 0); n=$((n+1)); echo $n > "$d/seq"
t=$(basename "$0")
f="$d/$(printf %06d $n)"
{
 echo "type=$t"; echo "cmd=$CNI_COMMAND"; echo "cid=$CNI_CONTAINERID"; echo "if=$CNI_IFNAME"; echo "netns=$CNI_NETNS"; echo "args=$CNI_ARGS"; echo "---"; cat
} > "$f"
if grep -q "^$t $CNI_COMMAND $CNI_CONTAINERID fail\$" "$d/ctl" 2>/dev/null; then
  echo '{"cniVersion":"0.3.1","code":100,"msg":"injected failure"}'
  exit 1
fi
if [ "$CNI_COMMAND" = ADD ]; then
  echo "{\"cniVersion\":\"0.3.1\",\"ips\":[{\"version\":\"4\",\"address\":\"10.77.0.2/24\",\"gateway\":\"10.77.0.1\"}],\"dns\":{\"domain\":\"$t.$CNI_CONTAINERID\"}}"
fi
exit 0
`

// Invocation is one recorded plugin execution.
type Invocation struct {
	Type, Cmd, CID, If, Netns string
	Args                      map[string]string
	RawArgs                   string
	Stdin                     map[string]interface{}
}

func (i Invocation) brief() string {
	prev := ""
	if p, ok := i.Stdin["prevResult"]; ok {
		if m, ok := p.(map[string]interface{}); ok {
			if dns, ok := m["dns"].(map[string]interface{}); ok {
				prev = fmt.Sprint(" prev=", dns["domain"])
			}
		}
	}
	return fmt.Sprintf("%s %s %s %s%s", i.Cmd, i.Type, i.CID, i.If, prev)
}

// lagKube is the fake clientset with one refinement the fake itself drops: a pod Get that allows a stale answer
// (resourceVersion "0": "any version the apiserver's cache has") is answered from a cache that has not caught up with the
// latest re-creation of the pod.
type lagKube struct {
	*kubefake.Clientset
	h *cniHarness
}

func (k *lagKube) CoreV1() corev1client.CoreV1Interface {
	return &lagCore{CoreV1Interface: k.Clientset.CoreV1(), h: k.h}
}

type lagCore struct {
	corev1client.CoreV1Interface
	h *cniHarness
}

func (c *lagCore) Pods(ns string) corev1client.PodInterface {
	return &lagPods{PodInterface: c.CoreV1Interface.Pods(ns), h: c.h, ns: ns}
}

type lagPods struct {
	corev1client.PodInterface
	h  *cniHarness
	ns string
}

// List answers in name order (the fake tracker ranges over a map: the order of a pod list is the harness's to decide, it
// is varied by the names the scenarios give to the pods).
func (p *lagPods) List(ctx context.Context, opts metav1.ListOptions) (*corev1.PodList, error) {
	l, err := p.PodInterface.List(ctx, opts)
	if err == nil && l != nil {
		sort.Slice(l.Items, func(i, j int) bool {
			return l.Items[i].Namespace+"/"+l.Items[i].Name < l.Items[j].Namespace+"/"+l.Items[j].Name
		})
	}
	return l, err
}

func (p *lagPods) Get(ctx context.Context, name string, opts metav1.GetOptions) (*corev1.Pod, error) {
	if opts.ResourceVersion == "0" {
		if old, ok := p.h.stale[p.ns+"/"+name]; ok {
			return old.DeepCopy(), nil
		}
	}
	return p.PodInterface.Get(ctx, name, opts)
}

type cniHarness struct {
	stale   map[string]*corev1.Pod // previous version of re-created pods (what a lagging cache still shows)
	dir     string                 // scratch dir: plugins, log, conf
	g       *galaxy.Galaxy
	kube    *kubefake.Clientset
	rest    *restful.Container
	kern    *nfsim.Kernel
	pmh     *portmapping.PortMappingHandler
	cidPfx  string
	created []string
}

type daemonConf struct {
	Defaults []string
	ENI      string
}

func newCNIHarness(conf daemonConf) (*cniHarness, error) {
	dir, err := os.MkdirTemp("/var/tmp", "galaxy-cnih.")
	if err != nil {
		return nil, err
	}
	h := &cniHarness{dir: dir, cidPfx: fmt.Sprintf("vp%d-", os.Getpid())}
	for _, sub := range []string{"bin", "log", "netconf"} {
		_ = os.MkdirAll(filepath.Join(dir, sub), 0o755)
	}
	for _, t := range []string{"vp-a", "vp-b", "vp-c", "vp-d"} {
		if err := os.WriteFile(filepath.Join(dir, "bin", t), []byte(pluginScript), 0o755); err != nil {
			return nil, err
		}
	}
	// network d only exists as a file in the network-conf-dir
	_ = os.WriteFile(filepath.Join(dir, "netconf", "d.conf"), []byte(`{"name":"d","type":"vp-d","cniVersion":"0.3.1","mtu":1400}`), 0o644)
	jc := map[string]interface{}{
		"NetworkConf": []map[string]interface{}{
			{"name": "a", "type": "vp-a", "cniVersion": "0.3.1", "subnet": "10.77.0.0/24"},
			{"name": "b", "type": "vp-b", "cniVersion": "0.3.1", "vlan": 7},
			{"name": "c", "type": "vp-c", "cniVersion": "0.3.1"},
		},
		"DefaultNetworks": conf.Defaults,
		"ENIIPNetwork":    conf.ENI,
	}
	data, _ := json.Marshal(jc)
	cfgPath := filepath.Join(dir, "galaxy.json")
	_ = os.WriteFile(cfgPath, data, 0o644)
	g := galaxy.NewGalaxy()
	g.JsonConfigPath = cfgPath
	g.NetworkConfDir = filepath.Join(dir, "netconf")
	g.CNIPaths = []string{filepath.Join(dir, "bin")}
	if err := g.Init(); err != nil {
		return nil, err
	}
	h.kube = kubefake.NewSimpleClientset()
	h.stale = map[string]*corev1.Pod{}
	g.SetClient(&lagKube{Clientset: h.kube, h: h})
	h.kern = nfsim.New()
	pmh := portmapping.NewVerif(utiliptables.New(h.kern.Exec(), utiliptables.ProtocolIpv4), "")
	if err := pmh.EnsureBasicRule(); err != nil { // the daemon does this on start
		return nil, err
	}
	g.VerifSetPortMappingHandler(pmh)
	h.pmh = pmh
	h.g = g
	c := restful.NewContainer()
	c.DoNotRecover(true)
	ws := new(restful.WebService)
	ws.Route(ws.POST("/cni").To(g.VerifCNI))
	c.Add(ws)
	h.rest = c
	os.Setenv("VP_LOGDIR", filepath.Join(dir, "log"))
	return h, nil
}

func (h *cniHarness) close() {
	if h.pmh != nil {
		for _, o := range h.pmh.VerifOpenPorts() {
			h.pmh.CloseHostports(strings.SplitN(o, " ", 2)[0])
		}
	}
	for _, cid := range h.created {
		_ = os.Remove(filepath.Join("/var/lib/cni/galaxy", cid))
		_ = os.Remove(filepath.Join("/var/lib/cni/galaxy/port", cid))
	}
	_ = os.RemoveAll(h.dir)
}

// reset clears the plugin log, the control file and the state files of our containers.
func (h *cniHarness) reset() {
	// host ports still held from the previous run are closed and the NAT table starts from the daemon's basic rules
	if h.pmh != nil {
		for _, o := range h.pmh.VerifOpenPorts() {
			h.pmh.CloseHostports(strings.SplitN(o, " ", 2)[0])
		}
		h.kern.ClearTable("nat")
		_ = h.pmh.EnsureBasicRule()
	}
	_ = os.RemoveAll(filepath.Join(h.dir, "log"))
	_ = os.MkdirAll(filepath.Join(h.dir, "log"), 0o755)
	for _, cid := range h.created {
		_ = os.Remove(filepath.Join("/var/lib/cni/galaxy", cid))
		_ = os.Remove(filepath.Join("/var/lib/cni/galaxy/port", cid))
	}
}

func (h *cniHarness) setFailures(f []string) {
	_ = os.WriteFile(filepath.Join(h.dir, "log", "ctl"), []byte(strings.Join(f, "\n")+"\n"), 0o644)
}

type cniPod struct {
	Name        string
	Networks    string // value of k8s.v1.cni.cncf.io/networks ("" = none)
	WantENI     bool
	ExtendedArg string // value of the galaxy args annotation ("" = none)
	HostPort    int32  // > 0: the container declares this host port (tcp, container port 80)
	HostPort2   int32  // > 0: and this second one (udp, container port 53)
	PortMapOn   bool   // the pod carries the port-mapping annotation (random host ports allowed; galaxy records the ports in it)
	HostIP      string // host IP of the first port ("" = any)
	HostIP2     string // host IP of the second port
	Labels      map[string]string
}

func (h *cniHarness) putPod(p cniPod) {
	pod := &corev1.Pod{ObjectMeta: metav1.ObjectMeta{Name: p.Name, Namespace: "ns", Annotations: map[string]string{}, Labels: p.Labels},
		Spec: corev1.PodSpec{Containers: []corev1.Container{{Name: "c"}}}}
	if p.Networks != "" {
		pod.Annotations[constant.MultusCNIAnnotation] = p.Networks
	}
	if p.ExtendedArg != "" {
		pod.Annotations[constant.ExtendedCNIArgsAnnotation] = p.ExtendedArg
	}
	if p.PortMapOn {
		pod.Annotations["tkestack.io/portmapping"] = ""
	}
	if p.HostPort > 0 || p.PortMapOn {
		pod.Spec.Containers[0].Ports = []corev1.ContainerPort{{HostPort: p.HostPort, ContainerPort: 80, Protocol: corev1.ProtocolTCP, HostIP: p.HostIP}}
		if p.HostPort2 > 0 {
			pod.Spec.Containers[0].Ports = append(pod.Spec.Containers[0].Ports, corev1.ContainerPort{HostPort: p.HostPort2, ContainerPort: 53, Protocol: corev1.ProtocolUDP, HostIP: p.HostIP2})
		}
	}
	if p.WantENI {
		q := resource.NewQuantity(1, resource.DecimalSI)
		pod.Spec.Containers[0].Resources.Requests = corev1.ResourceList{corev1.ResourceName(constant.ResourceName): *q}
	}
	if old, err := h.kube.Tracker().Get(corev1.SchemeGroupVersion.WithResource("pods"), "ns", p.Name); err == nil {
		if op, ok := old.(*corev1.Pod); ok {
			h.stale["ns/"+p.Name] = op.DeepCopy()
		}
	}
	_ = h.kube.Tracker().Delete(corev1.SchemeGroupVersion.WithResource("pods"), "ns", p.Name)
	_ = h.kube.Tracker().Add(pod)
}

// setPodIP plays the kubelet's status update after a successful ADD.
func (h *cniHarness) setPodIP(name, ip string) {
	obj, err := h.kube.Tracker().Get(corev1.SchemeGroupVersion.WithResource("pods"), "ns", name)
	if err != nil {
		return
	}
	if p, ok := obj.(*corev1.Pod); ok {
		q := p.DeepCopy()
		q.Status.PodIP = ip
		_ = h.kube.Tracker().Update(corev1.SchemeGroupVersion.WithResource("pods"), q, "ns")
	}
}

// deletePodObject removes the pod from the API server without any CNI request (a pod that went away while galaxy was down).
func (h *cniHarness) deletePodObject(name string) {
	_ = h.kube.Tracker().Delete(corev1.SchemeGroupVersion.WithResource("pods"), "ns", name)
}

// request sends one CNI request through the daemon's HTTP handler.
func (h *cniHarness) request(cmd, cid, pod, ifname string) (int, string) {
	full := h.cidPfx + cid
	seen := false
	for _, c := range h.created {
		if c == full {
			seen = true
		}
	}
	if !seen {
		h.created = append(h.created, full)
	}
	env := map[string]string{"CNI_COMMAND": cmd, "CNI_CONTAINERID": full, "CNI_NETNS": "/proc/1/ns/net", "CNI_IFNAME": ifname,
		"CNI_PATH": "/nonexistent", "CNI_ARGS": "IgnoreUnknown=1;K8S_POD_NAMESPACE=ns;K8S_POD_NAME=" + pod + ";K8S_POD_INFRA_CONTAINER_ID=" + full}
	body, _ := json.Marshal(map[string]interface{}{"env": env, "config": []byte(`{"cniVersion":"0.3.1","name":"galaxy-sdn","type":"galaxy-sdn"}`)})
	req := httptest.NewRequest(http.MethodPost, "/cni", bytes.NewReader(body))
	rec := httptest.NewRecorder()
	h.rest.ServeHTTP(rec, req)
	return rec.Code, rec.Body.String()
}

// invocations parses the plugin log.
func (h *cniHarness) invocations() []Invocation {
	ents, _ := os.ReadDir(filepath.Join(h.dir, "log"))
	var names []string
	for _, e := range ents {
		if _, err := strconv.Atoi(e.Name()); err == nil {
			names = append(names, e.Name())
		}
	}
	sort.Strings(names)
	var out []Invocation
	for _, n := range names {
		data, _ := os.ReadFile(filepath.Join(h.dir, "log", n))
		parts := strings.SplitN(string(data), "---\n", 2)
		inv := Invocation{Args: map[string]string{}}
		for _, l := range strings.Split(parts[0], "\n") {
			kv := strings.SplitN(l, "=", 2)
			if len(kv) != 2 {
				continue
			}
			switch kv[0] {
			case "type":
				inv.Type = kv[1]
			case "cmd":
				inv.Cmd = kv[1]
			case "cid":
				inv.CID = strings.TrimPrefix(kv[1], h.cidPfx)
			case "if":
				inv.If = kv[1]
			case "netns":
				inv.Netns = kv[1]
			case "args":
				inv.RawArgs = kv[1]
				for _, a := range strings.Split(kv[1], ";") {
					p := strings.SplitN(a, "=", 2)
					if len(p) == 2 {
						inv.Args[p[0]] = strings.ReplaceAll(p[1], h.cidPfx, "")
					}
				}
			}
		}
		if len(parts) == 2 {
			_ = json.Unmarshal([]byte(parts[1]), &inv.Stdin)
		}
		out = append(out, inv)
	}
	return out
}

// stateNetworks returns the network names saved in the state file of a container (nil if there is none).
func (h *cniHarness) stateNetworks(cid string) []string {
	data, err := os.ReadFile(filepath.Join("/var/lib/cni/galaxy", h.cidPfx+cid))
	if err != nil {
		return nil
	}
	var infos []struct{ NetworkType string }
	if json.Unmarshal(data, &infos) != nil {
		return []string{"<unparsable>"}
	}
	out := []string{}
	for _, i := range infos {
		out = append(out, i.NetworkType)
	}
	return out
}

// rawRequest posts an arbitrary body to the daemon's /cni handler.
func (h *cniHarness) rawRequest(body string) (int, string) {
	req := httptest.NewRequest(http.MethodPost, "/cni", strings.NewReader(body))
	rec := httptest.NewRecorder()
	h.rest.ServeHTTP(rec, req)
	return rec.Code, rec.Body.String()
}
