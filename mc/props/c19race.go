package props

import (
	"bufio"
	"fmt"
	"os"
	"os/exec"
	"path/filepath"
	"sort"
	"strings"
	"sync"
	"time"

	galaxyapi "tkestack.io/galaxy/pkg/api/galaxy"

	"verif.local/mc/coop"
	"verif.local/mc/world"
)

// C19, auxiliary pass: the bodies of the exhaustive scenarios run FREE (real goroutines, real locks: the shims fall through
// to the real primitives when no scheduler is attached) in a second binary built with Go's race detector. The cooperative
// scheduler's happens-before monitor decides the property for the memory it is told about (the fields named in the
// property); this pass looks at all memory, but only on the schedules the runtime happens to produce. It is not exhaustive and
// is reported as such. Reports are kept only if both conflicting accesses are in galaxy code (tkestack.io/galaxy/...): the
// harness itself is not written for free-running use beyond what keeps it from crashing.

// RacePassMain is the entry point inside the race-instrumented binary (ipamcheck --racepass <iterations>).
func RacePassMain(iters int) int {
	if coop.CurMode() != coop.Free {
		return 2
	}
	n := 0
	// galaxy-ipam: all pairs of entry points on one plugin instance
	names := c19RaceEntryNames()
	for i := range names {
		for j := i; j < len(names); j++ {
			if c19SkipPair(names[i], names[j]) {
				continue
			}
			for it := 0; it < iters; it++ {
				runFreeIPAM([]string{names[i], names[j]})
				n++
			}
		}
	}
	for _, t := range [][]string{{"filter", "bind", "unbind"}, {"filter-y", "bind", "resync"}, {"reload", "collect", "bind"}, {"filter-crd-known", "filter-crd-unknown", "filter-crd-known"}} {
		for it := 0; it < iters; it++ {
			runFreeIPAM(t)
			n++
		}
	}
	// galaxy daemon: concurrent CNI requests and policy events on one instance
	for it := 0; it < iters; it++ {
		runFreeDaemon()
		n++
	}
	fmt.Printf("racepass executions=%d\n", n)
	return 0
}

func c19RaceEntryNames() []string {
	return []string{"filter", "filter-y", "filter-z", "preempt-z", "filter-ranges", "filter-dp-replacement", "bind", "unbind", "resync", "release", "list", "pool", "reload", "collect", "preempt", "fipevents", "update-running", "filter-crd-known", "filter-crd-unknown", "filter-crd-fresh"}
}

func c19SkipPair(a, b string) bool {
	if a == b && (a == "reload" || a == "resync" || a == "bind" || a == "unbind") {
		return true
	}
	return false
}

func runFreeIPAM(sel []string) {
	w := world.New(cfgTwoPools(true))
	if err := w.Start(); err != nil {
		panic(err)
	}
	s := c19Prepare(w)
	_, _ = w.APIList("size=1") // builds the HTTP container before the threads start
	e := c19Entries(s)
	w.Free = true
	var wg sync.WaitGroup
	start := make(chan struct{})
	for _, n := range sel {
		f := e[n]
		if f == nil {
			panic("no entry point " + n)
		}
		wg.Add(1)
		go func() {
			defer wg.Done()
			defer func() { _ = recover() }()
			<-start
			f()
		}()
	}
	close(start)
	done := make(chan struct{})
	go func() { wg.Wait(); close(done) }()
	select {
	case <-done:
	case <-time.After(20 * time.Second):
		// a hang is not this pass's business (deadlocks are decided under the scheduler)
	}
	w.Free = false
}

func runFreeDaemon() {
	h, err := newCNIHarness(daemonConf{Defaults: []string{"a"}})
	if err != nil {
		return
	}
	defer h.close()
	h.kern.Serialize = true
	for _, p := range c12Pods {
		h.putPod(p)
	}
	base := int32(43000 + (os.Getpid()%200)*20)
	for i := int32(1); i <= 3; i++ {
		h.putPod(cniPod{Name: fmt.Sprintf("hp-%d", i), Networks: "a", HostPort: base + 10 + i, Labels: map[string]string{"app": "web"}})
	}
	pw := newPolicyWorld(h.kern)
	pw.setCluster(mkCluster([]string{"web", "db"}, []string{"in-podsel"}))
	pw.pm.Run()
	h.g.VerifSetPolicyManager(pw.pm)
	h.request("ADD", "c3", "hp-3", "eth0")
	reqs := []*galaxyapi.PodRequest{h.podRequest("ADD", "c1", "hp-1"), h.podRequest("ADD", "c2", "p-ab"), h.podRequest("DEL", "c3", "hp-3"), h.podRequest("ADD", "c4", "hp-2")}
	cl := mkCluster([]string{"web", "db"}, []string{"in-podsel", "in-denyall"})
	var wg sync.WaitGroup
	start := make(chan struct{})
	for _, r := range reqs {
		r := r
		wg.Add(1)
		go func() {
			defer wg.Done()
			defer func() { _ = recover() }()
			<-start
			_, _ = h.g.VerifRequest(r)
		}()
	}
	wg.Add(1)
	go func() {
		defer wg.Done()
		defer func() { _ = recover() }()
		<-start
		_ = pw.pm.AddPolicy(cl.Policies[1])
		_ = pw.pm.DeletePolicy(cl.Policies[1])
	}()
	close(start)
	done := make(chan struct{})
	go func() { wg.Wait(); close(done) }()
	select {
	case <-done:
	case <-time.After(30 * time.Second):
	}
}

// raceReport is one parsed race-detector report.
type raceReport struct {
	A, B   string // first non-runtime frame of each access
	StackA []string
	StackB []string
}

// parseRaceLogs reads the race detector's log files.
func parseRaceLogs(glob string) []raceReport {
	files, _ := filepath.Glob(glob)
	var out []raceReport
	for _, f := range files {
		fh, err := os.Open(f)
		if err != nil {
			continue
		}
		sc := bufio.NewScanner(fh)
		sc.Buffer(make([]byte, 1<<20), 1<<24)
		var cur *raceReport
		section := 0 // 1 = first access, 2 = second access, 3 = rest
		flush := func() {
			if cur != nil {
				out = append(out, *cur)
			}
			cur = nil
		}
		for sc.Scan() {
			l := sc.Text()
			t := strings.TrimSpace(l)
			switch {
			case strings.HasPrefix(l, "WARNING: DATA RACE"):
				flush()
				cur = &raceReport{}
				section = 0
			case cur == nil:
			case strings.HasPrefix(l, "=================="):
				flush()
			case strings.HasPrefix(l, "Read at ") || strings.HasPrefix(l, "Write at ") || strings.HasPrefix(l, "Previous read at ") || strings.HasPrefix(l, "Previous write at ") ||
				strings.HasPrefix(l, "Atomic ") || strings.HasPrefix(l, "Previous atomic "):
				section++
			case strings.HasPrefix(l, "Goroutine ") || strings.HasPrefix(l, "Location is "):
				section = 3
			case t == "" || section == 0 || section > 2:
			case strings.HasPrefix(l, "  ") && !strings.HasPrefix(l, "      "):
				fn := strings.TrimSuffix(t, "()")
				if i := strings.Index(fn, "("); i > 0 && strings.HasSuffix(fn, ")") && !strings.Contains(fn, ").") {
					fn = fn[:i]
				}
				if section == 1 {
					cur.StackA = append(cur.StackA, fn)
				} else {
					cur.StackB = append(cur.StackB, fn)
				}
			}
		}
		flush()
		fh.Close()
	}
	top := func(st []string) string {
		for _, f := range st {
			if strings.HasPrefix(f, "runtime.") || strings.HasPrefix(f, "sync.") || strings.HasPrefix(f, "sync/atomic.") || strings.HasPrefix(f, "reflect.") ||
				strings.HasPrefix(f, "verif.local/mc/coop/vmap.") {
				// (vmap: the shim that stands for a range statement of the code under test; the access belongs to its caller)
				continue
			}
			return f
		}
		return ""
	}
	for i := range out {
		out[i].A, out[i].B = top(out[i].StackA), top(out[i].StackB)
	}
	return out
}

// c19RaceJob runs the race-instrumented binary (VERIF_RACE_BIN) and turns its reports into violations.
func c19RaceJob(tier string) Job {
	name := "free-running/race-detector"
	return Job{Name: name, Weight: 6, Run: func(deadline time.Time) *ScenResult {
		t0 := time.Now()
		sr := &ScenResult{Scenario: name, Class: "auxiliary", Exhaustive: false, Bounds: map[string]int{}}
		bin := os.Getenv("VERIF_RACE_BIN")
		if bin == "" {
			sr.Stopped = "skipped: no race-instrumented binary (VERIF_RACE_BIN unset)"
			return sr
		}
		iters := 6
		if tier == "thorough" {
			iters = 40
		}
		dir, err := os.MkdirTemp("/var/tmp", "galaxy-race.")
		if err != nil {
			sr.Stopped = "skipped: " + err.Error()
			return sr
		}
		defer os.RemoveAll(dir)
		cmd := exec.Command(bin, "--racepass", fmt.Sprint(iters))
		cmd.Env = append(os.Environ(), "GORACE=log_path="+filepath.Join(dir, "race")+" halt_on_error=0 history_size=2", "VERIF_RACE_BIN=")
		out, _ := cmd.CombinedOutput()
		timeout := time.Until(deadline)
		_ = timeout
		execs := 0
		for _, l := range strings.Split(string(out), "\n") {
			if strings.HasPrefix(l, "racepass executions=") {
				fmt.Sscanf(l, "racepass executions=%d", &execs)
			}
		}
		sr.Executions = execs
		sr.Bounds["iterations_per_scenario"] = iters
		sr.Stopped = "not exhaustive by construction: schedules chosen by the Go runtime"
		if execs == 0 {
			sr.Stopped = "inconclusive: the race-instrumented run did not complete: " + firstLines(string(out), 3)
		}
		seen := map[string]bool{}
		for _, rp := range parseRaceLogs(filepath.Join(dir, "race.*")) {
			if !strings.HasPrefix(rp.A, "tkestack.io/galaxy/") || !strings.HasPrefix(rp.B, "tkestack.io/galaxy/") {
				continue // at least one side is harness or library code
			}
			pair := []string{rp.A, rp.B}
			sort.Strings(pair)
			key := strings.Join(pair, " ~ ")
			if seen[key] {
				continue
			}
			seen[key] = true
			sr.Distinct = append(sr.Distinct, key)
			sr.Nontrivial = append(sr.Nontrivial, key)
			sr.Violations = append(sr.Violations, coop.Violation{Scenario: name, Trace: []string{key}, Ops: []string{key},
				Error:     fmt.Sprintf("data race (Go race detector, free-running): %s\n    access 1: %s\n    access 2: %s", key, strings.Join(head(rp.StackA, 5), " <- "), strings.Join(head(rp.StackB, 5), " <- ")),
				Signature: "C19|data-race-free-running|" + shortFn(pair[0]) + "~" + shortFn(pair[1]) + "|", Class: "auxiliary"})
		}
		sr.WallS = time.Since(t0).Seconds()
		return sr
	}}
}

func head(l []string, n int) []string {
	if len(l) > n {
		return l[:n]
	}
	return l
}

func shortFn(f string) string {
	return strings.TrimPrefix(f, "tkestack.io/galaxy/")
}
