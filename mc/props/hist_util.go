package props

import (
	"encoding/json"
	"fmt"
	"net"
	"strconv"
	"strings"

	corev1 "k8s.io/api/core/v1"
	"tkestack.io/galaxy/pkg/api/galaxy/constant"
	"tkestack.io/galaxy/pkg/ipam/floatingip"

	"verif.local/mc/coop"
	"verif.local/mc/world"
)

func podAnnoIPs(p *corev1.Pod) []string {
	a, err := constant.UnmarshalCniArgs(p.Annotations[constant.ExtendedCNIArgsAnnotation])
	if err != nil || a == nil {
		return nil
	}
	var out []string
	for _, i := range a.Common.IPInfos {
		if i.IP != nil {
			out = append(out, i.IP.IP.String())
		}
	}
	return out
}

func histToViolation(prop, name string, h *HistSys, v histViolation) coop.Violation {
	ops := make([]string, len(v.Hist))
	for i, o := range v.Hist {
		ops[i] = fmt.Sprintf("%s %d %d", o.Kind, o.A, o.B)
	}
	return coop.Violation{Scenario: name, Ops: ops, Trace: []string{histString(v.Hist)},
		Error:     fmt.Sprintf("%s: %s (culprit %s)", v.Finding.Clause, v.Finding.Detail, v.Finding.Culprit),
		Signature: prop + "|" + v.Finding.Clause + "|" + v.Finding.Culprit + "|" + h.Class.String(), Class: h.Class.String()}
}

func parseOps(ops []string) []Op {
	var out []Op
	for _, s := range ops {
		f := strings.Fields(s)
		if len(f) != 3 {
			continue
		}
		a, _ := strconv.Atoi(f[1])
		b, _ := strconv.Atoi(f[2])
		out = append(out, Op{Kind: f[0], A: a, B: b})
	}
	return out
}

// poolsOf parses the world's floatingip configuration.
func poolsOf(cfgJSON string) []*floatingip.FloatingIPPool {
	var conf []*floatingip.FloatingIPPool
	_ = json.Unmarshal([]byte(cfgJSON), &conf)
	return conf
}

// routableNodes returns the nodes whose address lies in a node subnet of the pool containing ip.
func routableNodes(cfg world.Config, ip string) map[string]bool {
	out := map[string]bool{}
	nip := net.ParseIP(ip)
	for _, p := range poolsOf(cfg.Pools) {
		if !p.Contains(nip) {
			continue
		}
		for _, n := range cfg.Nodes {
			for _, sn := range p.NodeSubnets {
				if sn.Contains(net.ParseIP(n.IP)) {
					out[n.Name] = true
				}
			}
		}
	}
	return out
}

func poolOfIP(cfg world.Config, ip string) *floatingip.FloatingIPPool {
	nip := net.ParseIP(ip)
	for _, p := range poolsOf(cfg.Pools) {
		if p.Contains(nip) {
			return p
		}
	}
	return nil
}

func parseIP(s string) net.IP { return net.ParseIP(s) }

func fipAttr(policy constant.ReleasePolicy, uid string) floatingip.Attr {
	return floatingip.Attr{Policy: policy, Uid: uid}
}
